#!/bin/sh
# Runs the repository's pinned suite with the verification guard OFF and
# compares the set of passing tests with /root/.vp/BASELINE.json (stable_pass).
# usage: tools/baseline.sh [repo-dir]
REPO=${1:-/repo}
OUT=$(mktemp /dev/shm/baseline.XXXXXX.xml 2>/dev/null || mktemp)
unset SCALITY_BERT_E_VERIF
cd "$REPO" && /venv/bin/python -m pytest -ra -q -p no:cacheprovider --timeout=900 \
    --continue-on-collection-errors --junitxml="$OUT" >/dev/null 2>&1
/venv/bin/python - "$OUT" <<'EOF'
import json, sys
import xml.etree.ElementTree as ET
base = set(json.load(open('/root/.vp/BASELINE.json'))['stable_pass'])
passed = set()
for tc in ET.parse(sys.argv[1]).getroot().iter('testcase'):
    if not any(c.tag in ('failure', 'error', 'skipped') for c in tc):
        passed.add('%s::%s' % (tc.get('classname'), tc.get('name')))
missing = sorted(base - passed)
print('baseline: %d/%d stable tests pass' % (len(base & passed), len(base)))
for m in missing:
    print('  NOT PASSING:', m)
sys.exit(1 if missing else 0)
EOF
RC=$?
rm -f "$OUT"
exit $RC
