#!/bin/sh
# usage: tools/try_benign.sh <Cxx> [tier]
# validation/benign/<Cxx>/benign{1,2}.diff are behaviour-preserving refactorings
# written by a fresh sub-agent from the property text alone.  Each is applied to
# a fresh worktree of /repo HEAD and the property's check must stay silent.
PID=$1; TIER=${2:-quick}
for D in /verif/validation/benign/$PID/benign*.diff; do
  WT=/tmp/tryb-$PID-$$
  git -C /repo worktree add -q "$WT" HEAD || exit 2
  if ! git -C "$WT" apply "$D" 2>/dev/null; then
    # written against an older HEAD (before a later fix: commit): use that tree
    git -C /repo worktree remove --force "$WT"
    git -C /repo worktree add -q "$WT" 71eab2e || exit 2
    echo "$PID $(basename $D): applied on 71eab2e (does not apply on HEAD)"
    if ! git -C "$WT" apply "$D" 2>/dev/null; then echo "$PID $(basename $D): PATCH DOES NOT APPLY"; git -C /repo worktree remove --force "$WT"; continue; fi
  fi
  OUT=$(cd /verif && VERIF_REPO="$WT" VERIF_EVIDENCE_DIR="/dev/shm/ev-benign-$PID-$$" bin/check "$PID" --tier "$TIER" 2>&1)
  echo "$OUT" | grep -E "^VIOLATION|^  witness|INCONC|^C[0-9]+ |by mechanism|KNOWN" | cut -c1-400 | head -8 | sed "s|^|$PID $(basename $D): |"
  rm -rf "/dev/shm/ev-benign-$PID-$$"
  git -C /repo worktree remove --force "$WT"
done
