#!/bin/sh
# usage: tools/regress_seeds.sh [Cxx ...]   (default: every property)
# Re-runs the quick tier of each property against every seeded change kept
# under seeded/ (fresh worktree per seed, removed afterwards) and appends one
# line per seed to validation/seed_regression.txt:
#   <seed> <caught|MISSED|inconclusive|does-not-apply> <mechanisms>
cd /verif
PROPS=${*:-C01 C02 C03 C04 C05 C06 C07 C08 C09 C10 C11 C12 C13 C14 C15 C16 C17 C18 C19 C20}
for P in $PROPS; do
  for D in /verif/seeded/$P-agent*; do
    [ -f "$D/patch.diff" ] || continue
    WT=/tmp/reg-$P-$$
    git -C /repo worktree add -q "$WT" HEAD || exit 2
    BASE=HEAD
    if ! git -C "$WT" apply "$D/patch.diff" 2>/dev/null; then
      # written against the tree before later fix: commits
      git -C /repo worktree remove --force "$WT"
      git -C /repo worktree add -q "$WT" 71eab2e || exit 2
      BASE=71eab2e
      if ! git -C "$WT" apply "$D/patch.diff" 2>/dev/null; then
        git -C /repo worktree remove --force "$WT"
        git -C /repo worktree add -q "$WT" 7a87483~1 2>/dev/null || { echo "$(basename $D) does-not-apply" >> validation/seed_regression.txt; continue; }
        BASE=old
        if ! git -C "$WT" apply -3 "$D/patch.diff" 2>/dev/null; then
          echo "$(basename $D) does-not-apply" >> validation/seed_regression.txt
          git -C /repo worktree remove --force "$WT"; continue
        fi
      fi
    fi
    OUT=$(VERIF_REPO="$WT" VERIF_EVIDENCE_DIR="/dev/shm/ev-reg-$P-$$" bin/check "$P" --tier quick 2>&1)
    RC=$?
    MECH=$(echo "$OUT" | grep "violations by mechanism" | cut -c26-200)
    case $RC in 1) V=caught;; 0) V=MISSED;; *) V=inconclusive;; esac
    echo "$(basename $D) $V (on $BASE) $MECH" >> validation/seed_regression.txt
    rm -rf "/dev/shm/ev-reg-$P-$$"
    git -C /repo worktree remove --force "$WT"
  done
done
