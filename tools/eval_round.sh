#!/bin/sh
# usage: tools/eval_round.sh <round> <Cxx>
# Collects what the round-<round> sub-agent left in /tmp/seed<round>-<Cxx>
# (patch.diff, demo/, NOTES.md) into seeded/<Cxx>-agent<round>/ and evaluates it
# with tools/try_seed.sh (fresh worktree, demo with / without, pinned suite,
# the property's quick check).  Output also in /dev/shm/eval-<round>-<Cxx>.txt
R=$1; ID=$2; SRC=/tmp/seed$R-$ID; DST=/verif/seeded/$ID-agent$R
[ -f "$SRC/patch.diff" ] || (cd "$SRC" && git diff -- bert_e > patch.diff)
mkdir -p "$DST" && cp "$SRC/patch.diff" "$DST/" && cp -r "$SRC/demo" "$DST/" && cp "$SRC/NOTES.md" "$DST/" 2>/dev/null
find "$DST" -name __pycache__ -prune -exec rm -rf {} + 2>/dev/null
find "$DST/demo" -mindepth 1 -maxdepth 1 -type d -name 'scratch*' -exec rm -rf {} + 2>/dev/null
/verif/tools/try_seed.sh "$DST" "$ID" quick --tests 2>&1 | tee /dev/shm/eval-$R-$ID.txt
