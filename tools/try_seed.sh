#!/bin/sh
# usage: tools/try_seed.sh <seed-dir> <Cxx> [tier] [--tests]
# <seed-dir> holds patch.diff and demo/.  A fresh worktree of /repo HEAD is
# created, the patch applied; the demo must fail with it and pass without it;
# the property's check is run against the patched worktree; the worktree is
# removed.
SEED=$(cd "$1" && pwd); PID=$2; TIER=${3:-quick}
WT=/tmp/try-$PID-$$
git -C /repo worktree add -q "$WT" HEAD || exit 2
cd "$WT"
if ! git apply "$SEED/patch.diff" 2>/dev/null && ! git apply -3 "$SEED/patch.diff"; then echo "PATCH DOES NOT APPLY"; git -C /repo worktree remove --force "$WT"; exit 2; fi
echo "== patch: $(git diff --stat -- bert_e | tail -1)"
cp -r "$SEED/demo" "$WT/demo"
DEMO=$(ls demo/*.py 2>/dev/null | head -1)
PYTHONPATH="$WT" timeout 1200 /venv/bin/python "$DEMO" > /tmp/try_$$.with 2>&1; W=$?
git apply -R "$SEED/patch.diff"
PYTHONPATH="$WT" timeout 1200 /venv/bin/python "$DEMO" > /tmp/try_$$.without 2>&1; WO=$?
git apply "$SEED/patch.diff"
echo "== demo: exit $W with the change, exit $WO without it"
if [ "$4" = "--tests" ]; then /verif/tools/baseline.sh "$WT" | head -3; fi
echo "== check $PID ($TIER) against the patched worktree"
cd /verif && VERIF_REPO="$WT" VERIF_EVIDENCE_DIR="/dev/shm/ev-seed-$PID-$$" bin/check "$PID" --tier "$TIER" 2>&1 \
  | grep -E "^VIOLATION|^  witness|INCONC|^C[0-9]+ |by mechanism" | cut -c1-300 | head -6
rm -rf "/dev/shm/ev-seed-$PID-$$" /tmp/try_$$.*
git -C /repo worktree remove --force "$WT"
