#!/bin/sh
# usage: tools/run_all.sh <tier> [ids...]   runs the checks one after the other, prints one line each
TIER=${1:-quick}; shift
IDS=${*:-C01 C02 C03 C04 C05 C06 C07 C08 C09 C10 C11 C12 C13 C14 C15 C16 C17 C18 C19 C20}
for c in $IDS; do
  bin/check $c --tier $TIER 2>&1 | grep -E "^VIOLATION|^  witness|^INCONC|^C[0-9]+ (quick|thorough)|^KNOWN|by mechanism" | cut -c1-400
done
