#!/usr/bin/env python3
"""Regenerates MANIFEST.json from the table below (kept in one place so that
the manifest stays valid while checks are added)."""
import json
import os
import sys

HERE = os.path.dirname(os.path.dirname(os.path.abspath(__file__)))

# id -> (level, technique, level text, level note, design ref)
CHECKS = {
    'C04': ('exploration',
            'runtime oracle on the real gate function: exhaustive input '
            'enumeration through handle_comments + check_approvals on a stub '
            'job, compared with a predicate written from the statement',
            'Every cell of the quantified input space (approval settings x 5 '
            'users x 5 review states x 2^5 options x bypass sources) is '
            'executed through the real functions and compared with an '
            'independent predicate; held = no disagreement on any cell of the '
            'stated finite space.',
            'stub pull request / participants; real SettingsSchema, Reactor, '
            'handle_comments, check_approvals; "waived" read as bypassed or '
            'count 0',
            'DESIGN.md section 3, C04'),
}

ALL = ['C%02d' % i for i in range(1, 21)]

NOT_YET = 'monitor not built yet in this round (see DESIGN.md section 3); ' \
          'no claim is made'


def main():
    checks = []
    for pid in ALL:
        if pid not in CHECKS:
            continue
        level, technique, text, note, ref = CHECKS[pid]
        checks.append({
            'property_id': pid,
            'quick_cmd': 'bin/check %s --tier quick' % pid,
            'thorough_cmd': 'bin/check %s --tier thorough' % pid,
            'evidence_file': 'evidence/%s.json' % pid,
            'replay_cmd_template': 'bin/check %s --replay {path}' % pid,
            'engine': 'vf',
            'level_claimed': {'category': level, 'text': text,
                              'design_ref': ref},
            'level_note': note,
            'technique': technique,
        })
    manifest = {
        'version': 1,
        'setup_cmd': 'bin/setup',
        'hooks': {
            'guard': 'SCALITY_BERT_E_VERIF',
            'enable': 'no source hooks: monitors are monkeypatches applied '
                      'in the harness process, a git shim on PATH, a '
                      'server-side update hook in the scratch repository and '
                      'sys.monitoring; bin/check exports '
                      'SCALITY_BERT_E_VERIF=1 for symmetry',
            'baseline_off_cmd': 'tools/baseline.sh /repo',
            'source_commits': [],
            'add_only': True,
        },
        'engines': [{
            'name': 'vf',
            'path': 'vf/',
            'serves_properties': sorted(CHECKS),
            'kind_free_text': 'runtime monitoring harness: real Bert-E code '
                              'imported from /repo working tree, driven by '
                              'generated workloads; oracles in vf/func and '
                              'vf/world',
        }],
        'checks': checks,
        'notes': 'All checks run /repo\'s current working tree with '
                 '/venv/bin/python (fresh interpreter per shard). Exit 0 '
                 'held / 1 violation / 2 inconclusive.',
        'not_applicable': [{'property_id': p, 'reason': NOT_YET}
                           for p in ALL if p not in CHECKS],
    }
    with open(os.path.join(HERE, 'MANIFEST.json'), 'w') as f:
        json.dump(manifest, f, indent=1)
        f.write('\n')


if __name__ == '__main__':
    sys.exit(main())
