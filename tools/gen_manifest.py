#!/usr/bin/env python3
"""Regenerates MANIFEST.json from the table below (kept in one place so that
the manifest stays valid while checks are added)."""
import json
import os
import sys

HERE = os.path.dirname(os.path.dirname(os.path.abspath(__file__)))

W = ('mock git host backed by a real bare git repository, real git, real '
     'BertE.put_job/process_task; sampled histories (<= 3 pull requests); '
     'see the evidence file\'s assumptions')

# id -> (level, technique, level text, level note, design ref)
CHECKS = {
    'C01': ('exploration',
            'runtime invariant monitor: git merge-base --is-ancestor on the '
            'bare remote before/after every job of generated histories',
            'Real Bert-E is driven through random + directed histories on '
            'real repositories in 3 queue modes x octopus/no_octopus x 8 '
            'layouts; after EVERY job an independent oracle re-checks the '
            'inclusion chain on the remote. Held = no job broke it on the '
            'histories produced (counts in evidence).',
            W, 'DESIGN.md section 3, C01'),
    'C02': ('fault_enumeration',
            'failpoints at the process boundary (git shim, git-host call '
            'wrappers, server-side update hook) enumerated over every '
            'operation boundary and every pushed ref of explored jobs; '
            'recovery differential on tree ids in fork children',
            'For each explored job: reference run, then one child per crash '
            'boundary and one per (push, rejected ref); all-or-none + C01 '
            'observed at the interrupted state and after every recovery job; '
            'drained destination trees compared with the uninterrupted run.',
            W + '; crash = every later remote-mutating operation fails',
            'DESIGN.md section 3, C02'),
    'C03': ('exploration',
            'runtime monitor at every destination movement: new tip looked '
            'up in the host build-status table; exemptions from harness '
            'knowledge only',
            'Queue-mode histories with hostile CI reports (5 states, stale '
            'tips, any order); every advance of an existing destination ref '
            'is checked against the status table.',
            W, 'DESIGN.md section 3, C03'),
    'C04': ('exploration',
            'runtime oracle on the real gate function: exhaustive input '
            'enumeration through handle_comments + check_approvals on a stub '
            'job, compared with a predicate written from the statement; '
            'sampled cells replayed on real repositories (system-level '
            'companion)',
            'Every cell of the quantified input space (approval settings x 5 '
            'users x 5 review states x 2^5 options x bypass sources) is '
            'executed through the real functions and compared with an '
            'independent predicate; held = no disagreement on any cell of the '
            'stated finite space.',
            'stub pull request / participants; real SettingsSchema, Reactor, '
            'handle_comments, check_approvals; "waived" read as bypassed or '
            'count 0',
            'DESIGN.md section 3, C04'),
    'C05': ('exploration',
            'real BranchCascade + QueueCollection executed on an in-memory '
            'git (FakeGit) over enumerated queue graphs and status '
            'assignments, compared with a longest-green-prefix oracle; plus '
            'a monitor of every queue evaluation of generated histories on '
            'real repositories against the same oracle',
            'Exhaustive slices of (layout, queue of <= 4 PRs, destination '
            'choice, status assignment) run through the real selection code; '
            'sub-spaces completed are listed in the evidence.',
            'FakeGit interprets the few git command lines the code issues; '
            'unknown command = inconclusive; graphs built the way '
            'add_to_queue builds them',
            'DESIGN.md section 3, C05'),
    'C06': ('exploration',
            'F: exhaustive status vectors through the real '
            'check_build_status; W: runtime monitor on queue entry / direct '
            'merge / refusals in hostile-CI histories using the host status '
            'table and the status queries Bert-E made',
            'All 5^n vectors (n<=4) x bypass sources x build key at function '
            'level; at system level every Queued / SuccessMessage / Build* '
            'outcome of generated histories is checked against the host '
            'table.',
            W, 'DESIGN.md section 3, C06'),
    'C07': ('exploration',
            'real handle_comments + Reactor on stub jobs over a structured '
            'comment grammar (singles, all pairs, all triples of nested '
            'alphabets); necessary-condition, first-offence and metamorphic '
            'oracles; system-level monitor of the options listed in robot '
            'messages on a long-lived instance serving several authors',
            'Comments are generated from a structured form so the oracle '
            'never re-parses text; P1/P2 necessary conditions, P3 blocking '
            'class of the first offending comment, P4 invariance under '
            'unaddressed comments.',
            'stub pull request; option registry of the real commands.py',
            'DESIGN.md section 3, C07'),
    'C08': ('fault_enumeration',
            'ownership monitor on refs + push argv after every job, and one '
            'third-party action placed by the git shim immediately before '
            'each push of explored jobs (fork children)',
            'Every (push, third-party action) placement of explored jobs is '
            'executed; the foreign ref must keep the third party\'s value; '
            'plus fast-forward / reachability / archive-tag / no-force '
            'monitors on every job of generated histories.',
            W, 'DESIGN.md section 3, C08'),
    'C09': ('exploration',
            'real BranchCascade driven over enumerated branch sets, tag sets, '
            'destinations and discovery orders, compared with an independent '
            'computation of targets / ignored branches / fix versions',
            'Bounded-exhaustive enumeration of the quantifier\'s universe '
            '(subsets of a ~20-name grid x tag sets x destination x order).',
            'fake repository answering the git command lines of '
            'BranchCascade.build; inclusion holds in the fake graph',
            'DESIGN.md section 3, C09'),
    'C10': ('exploration',
            'fork differential: each possible evaluation delivered three '
            'times (third must be a no-op, commands not re-run) and once on '
            'a fresh instance (same status and state); adjacent-duplicate '
            'comment monitor on all histories',
            'At sampled reachable states every evaluation is repeated in '
            'fork children and compared; commit ids are reproducible because '
            'dates are pinned.',
            W, 'DESIGN.md section 3, C10'),
    'C11': ('exploration',
            'real jira_checks on stub jobs with a fake issue store over '
            'enumerated names x issues x fixVersion subsets x cascades x '
            'settings x bypass sources, against an ordered-checks oracle; '
            'system-level companion with a fake Jira store on real '
            'repositories (refusal classes, no integration data, later '
            'events)',
            'About 7e5 (quick) / 5e6 (thorough) cells through the real gate; '
            'expected versions written by hand from the C09 statement.',
            'JiraIssue replaced in the harness process; real BranchCascade '
            'populated through its own methods',
            'DESIGN.md section 3, C11'),
    'C12': ('exploration',
            'runtime monitor on refs / PRs / comments around every job made '
            'while a hold is in place, bounded-progress check after it is '
            'lifted; F: real handle_pull_request on a stub job over a name '
            'grammar',
            'Each hold kind is added at each of 3 positions of a short '
            'history on real repositories and attacked with 3-6 hostile '
            'steps; after lifting it the PR must reach the queue / merge '
            'within 5 cooperative rounds; 5 600 (source, destination, state) '
            'cells at function level.',
            W, 'DESIGN.md section 3, C12'),
    'C15': ('exploration',
            'runtime monitor around the evaluation that executes reset / '
            'force_reset in generated rewrite histories; the harness knows '
            'the manual commits it made and classifies them independently',
            'Source rewrites, destination moves and manual commits (plain '
            'and merge commits) in random order, then the command; refusal, '
            'scope of deletions / declines and rebuild are checked on the '
            'remote and the host.',
            W, 'DESIGN.md section 3, C15'),
    'C13': ('exploration',
            'deterministic controlled scheduler (sys.monitoring LINE events) '
            'over the real put_job / process_task / job __eq__; offline '
            'checker of accept/dequeue event logs; bounded-preemption '
            'enumeration + PCT-style random schedules',
            'Every explored interleaving is a deterministic function of a '
            'choice sequence; the oracle checks that each accepted event is '
            'followed by a later dequeue of an equal job, and the worker\'s '
            'bookkeeping after each job.',
            'queue.Queue internals trusted (not instrumented); line '
            'granularity inside the dispatcher only',
            'DESIGN.md section 3, C13'),
    'C14': ('exploration',
            'full request matrix through the real Flask app (test client) '
            'with the route table cross-checked against app.url_map; oracle '
            'table from the statement and API documentation',
            'Every endpoint x method x session x parameter class, forms with '
            'CSRF, both webhook routes x credentials x identity x event; '
            'status code and task-queue delta compared per request.',
            'BertE constructor replaced as in test_server.py; requests '
            'adapter routes the forms\' own HTTP call back into the app',
            'DESIGN.md section 3, C14'),
    'C16': ('fault_enumeration',
            'failpoints on every git command of explored jobs (git shim '
            'fails / hangs the command while printing the credentialed URL) '
            'with sentinel search over log records incl. chained tracebacks, '
            'fd-level stdout/stderr, job reports and host comments; scripted '
            'HTTP session for the GitHub password and App flows',
            'One child per git command index of explored jobs (sampled in '
            'the quick tier) x fail/hang x 4 password classes x 2 log levels; '
            'GitHub flows against 9 reply classes with real JWT signing.',
            'clone URL built as the github/bitbucket clients build it and '
            'mapped to the bare repository with url.insteadOf; timeout '
            'shortened to 1.5 s for the hang placements',
            'DESIGN.md section 3, C16'),
    'C19': ('exploration',
            'runtime monitor on the host PR list and remote w/ refs after '
            'every job of event-heavy histories; fork differential: event on '
            'child PR / w tip / source tip vs event on the parent',
            'Counting and naming oracles from the harness\'s own cascade '
            'computation after every job; redirect equivalence compared on '
            'status + full state digest in fork children.',
            W, 'DESIGN.md section 3, C19'),
    'C20': ('exploration',
            'every admin request of a catalogue tried in a fork child at '
            'sampled states; ref / tag / pending-job oracles from the '
            'statement',
            'About 50 admin requests per state (create / delete branch '
            'classes x branch_from, queue jobs) at states with 0-3 queued '
            'PRs; cascade rules, C01, archive tags, refusal leaves the remote '
            'untouched, rebuild re-submits the queue in order.',
            W, 'DESIGN.md section 3, C20'),
    'C17': ('exploration',
            'exhaustive run lists through the real AggregatedWorkflowRuns; '
            'exhaustive/sampled webhook+poll sequences through the real '
            'clients, Flask webhook routes and LRU cache against a '
            'sticky-green reference model; LRU size invariant at every '
            'get/set',
            'Aggregation: all ordered lists of <= 4 runs (necessary '
            'condition). Cache: all histories of <= 4 operations (+ 5 ending '
            'in a poll) for both hosts and cache sizes 1 / 1000.',
            'scripted requests adapter stands for the host; eviction '
            'asserted only where certain',
            'DESIGN.md section 3, C17'),
    'C18': ('exploration',
            'real branch_factory / GWFBranch classes / name construction and '
            'handle_commit over a bounded name grammar, compared with a '
            'hand-written string-operation classifier; round trip of derived '
            'names',
            '2.3e6 (quick) / 1.2e7 (thorough) distinct names and 5e5 / 3e6 '
            '(pr, version, source) triples.',
            'names that are not valid git refs, leading zeros and non-ASCII '
            'digits are don\'t-cares',
            'DESIGN.md section 3, C18'),
}

ALL = ['C%02d' % i for i in range(1, 21)]
# checks validated on the unchanged tree (others stay under not_applicable)
READY = ['C01', 'C02', 'C03', 'C04', 'C05', 'C06', 'C07', 'C08', 'C09',
         'C10', 'C11', 'C12', 'C13', 'C14', 'C15', 'C16', 'C17', 'C18', 'C19',
         'C20']

NOT_YET = 'monitor not built yet in this round (see DESIGN.md section 3); ' \
          'no claim is made'


def main():
    checks = []
    import os as _os
    for pid in ALL:
        if pid not in CHECKS or pid not in READY or not _os.path.exists(_os.path.join(
                HERE, 'vf', 'checks', pid.lower() + '.py')):
            continue
        level, technique, text, note, ref = CHECKS[pid]
        checks.append({
            'property_id': pid,
            'quick_cmd': 'bin/check %s --tier quick' % pid,
            'thorough_cmd': 'bin/check %s --tier thorough' % pid,
            'evidence_file': 'evidence/%s.json' % pid,
            'replay_cmd_template': 'bin/check %s --replay {path}' % pid,
            'engine': 'vf',
            'level_claimed': {'category': level, 'text': text,
                              'design_ref': ref},
            'level_note': note,
            'technique': technique,
        })
    manifest = {
        'version': 1,
        'setup_cmd': 'bin/setup',
        'hooks': {
            'guard': 'SCALITY_BERT_E_VERIF',
            'enable': 'no source hooks: monitors are monkeypatches applied '
                      'in the harness process, a git shim on PATH, a '
                      'server-side update hook in the scratch repository and '
                      'sys.monitoring; bin/check exports '
                      'SCALITY_BERT_E_VERIF=1 for symmetry',
            'baseline_off_cmd': 'tools/baseline.sh /repo',
            'source_commits': [],
            'add_only': True,
        },
        'engines': [{
            'name': 'vf',
            'path': 'vf/',
            'serves_properties': [c['property_id'] for c in checks],
            'kind_free_text': 'runtime monitoring harness: real Bert-E code '
                              'imported from /repo working tree, driven by '
                              'generated workloads; oracles in vf/func and '
                              'vf/world',
        }],
        'checks': checks,
        'notes': 'All checks run /repo\'s current working tree with '
                 '/venv/bin/python (fresh interpreter per shard). Exit 0 '
                 'held / 1 violation / 2 inconclusive.',
        'not_applicable': [{'property_id': p, 'reason': NOT_YET}
                           for p in ALL
                           if p not in [c['property_id'] for c in checks]],
    }
    with open(os.path.join(HERE, 'MANIFEST.json'), 'w') as f:
        json.dump(manifest, f, indent=1)
        f.write('\n')


if __name__ == '__main__':
    sys.exit(main())
