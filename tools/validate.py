#!/usr/bin/env python3
"""Validates MANIFEST.json and every evidence file against the schemas in
/root/.vp (run with python3-vt: jsonschema lives in the tooling venv)."""
import json
import os
import sys

import jsonschema

HERE = os.path.dirname(os.path.dirname(os.path.abspath(__file__)))
m = json.load(open(os.path.join(HERE, 'MANIFEST.json')))
jsonschema.validate(m, json.load(open('/root/.vp/MANIFEST.schema.json')))
es = json.load(open('/root/.vp/EVIDENCE.schema.json'))
bad = 0
props = [json.loads(l)['id'] for l in open(os.path.join(HERE,
                                                         'properties.jsonl'))]
claimed = [c['property_id'] for c in m['checks']]
na = [n['property_id'] for n in m.get('not_applicable', [])]
for p in props:
    if (p in claimed) == (p in na):
        print('property %s: claimed=%s not_applicable=%s' % (
            p, p in claimed, p in na))
        bad += 1
for c in m['checks']:
    path = os.path.join(HERE, c['evidence_file'])
    try:
        e = json.load(open(path))
        jsonschema.validate(e, es)
        cov = e['coverage']
        print('%s %-8s level=%s evals=%s distinct=%s verdict=%s wall=%ss' % (
            c['property_id'], e['tier'], e['level'], cov.get('evaluations'),
            cov.get('distinct_nontrivial'), cov.get('verdict'), e['wall_s']))
        if e['level'] != c['level_claimed']['category']:
            print('  LEVEL MISMATCH with manifest')
            bad += 1
    except Exception as err:
        print('%s: %s' % (c['property_id'], str(err)[:200]))
        bad += 1
print('manifest valid; %d problem(s)' % bad)
sys.exit(1 if bad else 0)
