#!/usr/bin/env python3
"""Systematic mutation sampling of the code each property is anchored in.

The hand-written catalogue (mutations.json) holds changes I thought of; the
seeded changes hold what fresh sub-agents thought of.  This tool takes my
imagination out of the loop: it enumerates small syntactic mutants (negated
condition, swapped comparison, and<->or, dropped `not`, deleted raise /
continue / call statement, flipped constant) inside the functions a property
is anchored in, samples them, and runs the property's check against each
(VERIF_REPO = scratch copy).  Mutants the check does not report are then run
against the pinned test-suite: one that survives both is either an equivalent
mutant or a blind spot, and is listed for review.

usage: validation/automutate.py --list Cxx
       validation/automutate.py --run Cxx [--max N] [--seed S] [--tier quick]
                                [--ops neg,cmp,...] [--only <mutant-id>...]
Results: validation/automut_results.jsonl (one line per mutant run).
"""
import ast
import hashlib
import json
import os
import random
import shutil
import subprocess
import sys
import time

HERE = os.path.dirname(os.path.abspath(__file__))
VERIF = os.path.dirname(HERE)
REPO = '/repo'
G = 'bert_e/workflow/gitwaterflow/'

# property -> [(file, [function or Class.method names; '*' = whole file])]
ANCHORS = {
    'C01': [(G + 'integration.py', ['merge_integration_branches']),
            (G + 'queueing.py', ['add_to_queue', 'merge_queues']),
            ('bert_e/workflow/git_utils.py',
             ['robust_merge', 'octopus_merge', 'consecutive_merge']),
            (G + 'branches.py', ['BranchCascade.validate']),
            ('bert_e/jobs/create_branch.py', ['create_branch'])],
    'C02': [('bert_e/lib/git.py', ['Repository.push_all', 'Repository.push']),
            ('bert_e/workflow/git_utils.py', ['push']),
            (G + 'integration.py', ['merge_integration_branches']),
            (G + 'queueing.py', ['close_queued_pull_request', 'merge_queues',
                                 'handle_merge_queues']),
            ('bert_e/bert_e.py', ['BertE.process']),
            (G + 'branches.py', ['QueueCollection.validate'])],
    'C03': [(G + 'queueing.py', ['merge_queues', 'is_needed',
                                 'handle_merge_queues', 'already_in_queue']),
            (G + 'branches.py', ['QueueCollection._recursive_lookup',
                                 'QueueCollection._remove_unmergeable',
                                 'QueueCollection._extract_pr_ids',
                                 'QueueCollection.mergeable_prs',
                                 'QueueCollection.validate']),
            (G + '__init__.py', ['check_build_status']),
            (G + 'integration.py', ['check_integration_branches',
                                    'update_integration_branches'])],
    'C04': [(G + '__init__.py', ['check_approvals']),
            (G + 'utils.py', ['*'])],
    'C05': [(G + 'branches.py', ['QueueCollection._process',
                                 'QueueCollection._recursive_lookup',
                                 'QueueCollection._extract_pr_ids',
                                 'QueueCollection._remove_unmergeable',
                                 'QueueCollection.finalize',
                                 'QueueCollection.mergeable_prs',
                                 'compare_queues']),
            (G + 'queueing.py', ['merge_queues'])],
    'C06': [(G + '__init__.py', ['check_build_status']),
            (G + 'utils.py', ['bypass_build_status']),
            (G + 'integration.py', ['update_integration_branches'])],
    'C07': [(G + '__init__.py', ['handle_comments']),
            ('bert_e/reactor.py', ['*']),
            (G + 'commands.py', ['setup'])],
    'C08': [('bert_e/lib/git.py', ['Branch.remove', 'Repository.push_all',
                                   'Repository.push']),
            ('bert_e/workflow/git_utils.py', ['push']),
            ('bert_e/jobs/delete_branch.py', ['*']),
            ('bert_e/jobs/delete_queues.py', ['*']),
            ('bert_e/jobs/rebuild_queues.py', ['*'])],
    'C09': [(G + 'branches.py', ['BranchCascade.*', 'compare_branches'])],
    'C10': [('bert_e/workflow/pr_utils.py', ['*']),
            (G + '__init__.py', ['handle_comments', '_handle_pull_request']),
            (G + 'commands.py', ['reset', '_reset', 'force_reset'])],
    'C11': [(G + 'jira.py', ['*'])],
    'C12': [(G + '__init__.py', ['early_checks', 'check_dependencies',
                                 'handle_declined_pull_request']),
            (G + 'commands.py', ['after_pull_request'])],
    'C13': [('bert_e/bert_e.py', ['BertE.put_job', 'BertE.process_task']),
            ('bert_e/job.py', ['PullRequestJob.__eq__', 'CommitJob.__eq__',
                               'Job.complete'])],
    'C14': [('bert_e/server/auth.py', ['*']),
            ('bert_e/server/api/base.py', ['*']),
            ('bert_e/server/webhook.py', ['*']),
            ('bert_e/server/api/gwf/branches.py', ['*']),
            ('bert_e/server/api/gwf/queues.py', ['*']),
            ('bert_e/server/api/pull_requests.py', ['*'])],
    'C15': [(G + 'commands.py', ['_reset', 'reset', 'force_reset']),
            (G + 'integration.py', ['get_integration_branches'])],
    'C16': [('bert_e/lib/simplecmd.py', ['*']),
            ('bert_e/lib/git.py', ['Repository.__init__', 'Repository.cmd',
                                   'Repository.clone'])],
    'C17': [('bert_e/git_host/github/__init__.py',
             ['AggregatedWorkflowRuns.*', 'AggregatedCheckSuites.*',
              'Repository.get_build_status', 'Repository.get_commit_status']),
            ('bert_e/git_host/bitbucket/__init__.py',
             ['Repository.get_build_status']),
            ('bert_e/git_host/cache.py', ['*']),
            ('bert_e/lib/lru_cache.py', ['*']),
            ('bert_e/server/webhook.py', ['*'])],
    'C18': [(G + 'branches.py', ['branch_factory', 'GWFBranch.*',
                                 'IntegrationBranch.*',
                                 'QueueIntegrationBranch.*',
                                 'QueueBranch.*']),
            (G + 'integration.py', ['get_integration_branches',
                                    'create_integration_branches']),
            (G + '__init__.py', ['handle_commit'])],
    'C19': [(G + 'integration.py', ['create_integration_branches',
                                    'create_integration_pull_requests',
                                    'get_integration_branches']),
            (G + 'branches.py',
             ['IntegrationBranch.get_pull_request_from_list',
              'IntegrationBranch.get_or_create_pull_request']),
            (G + '__init__.py', ['handle_parent_pull_request',
                                 'handle_commit',
                                 'handle_declined_pull_request'])],
    'C20': [('bert_e/jobs/create_branch.py', ['*']),
            ('bert_e/jobs/delete_branch.py', ['*']),
            ('bert_e/jobs/delete_queues.py', ['*']),
            ('bert_e/jobs/rebuild_queues.py', ['*']),
            ('bert_e/jobs/force_merge_queues.py', ['*']),
            (G + 'branches.py', ['QueueCollection.has_version_queued_prs',
                                 'QueueCollection.queued_prs'])],
}

CMP_SWAP = {ast.Eq: '!=', ast.NotEq: '==', ast.Lt: '<=', ast.LtE: '<',
            ast.Gt: '>=', ast.GtE: '>', ast.In: 'not in', ast.NotIn: 'in',
            ast.Is: 'is not', ast.IsNot: 'is'}


def _offsets(src):
    starts, pos = [], 0
    for line in src.splitlines(keepends=True):
        starts.append(pos)
        pos += len(line)
    return starts


class Collector(ast.NodeVisitor):
    def __init__(self, src, wanted):
        self.src, self.wanted = src, wanted
        self.starts = _offsets(src)
        self.stack = []
        self.out = []       # (op, qualname, start, end, replacement)

    def span(self, node):
        return (self.starts[node.lineno - 1] + node.col_offset,
                self.starts[node.end_lineno - 1] + node.end_col_offset)

    def active(self):
        if '*' in self.wanted:
            return bool(self.stack)
        q = '.'.join(self.stack)
        for w in self.wanted:
            if w.endswith('.*'):
                if q.startswith(w[:-1]) or q == w[:-2]:
                    return True
            elif q == w or q.startswith(w + '.'):
                return True
        return False

    def add(self, op, node, text):
        s, e = self.span(node)
        if self.src[s:e] != text:
            self.out.append((op, '.'.join(self.stack), node.lineno, s, e,
                             text))

    def visit_ClassDef(self, node):
        self.stack.append(node.name)
        self.generic_visit(node)
        self.stack.pop()

    def visit_FunctionDef(self, node):
        self.stack.append(node.name)
        for st in node.body:
            self.visit(st)
        self.stack.pop()
    visit_AsyncFunctionDef = visit_FunctionDef

    def generic_visit(self, node):
        if self.active():
            self.mutate(node)
        super().generic_visit(node)

    def mutate(self, node):
        seg = lambda n: self.src[slice(*self.span(n))]
        if isinstance(node, (ast.If, ast.While, ast.IfExp)):
            self.add('neg', node.test, 'not (%s)' % seg(node.test))
        elif isinstance(node, ast.Compare) and len(node.ops) == 1 and \
                type(node.ops[0]) in CMP_SWAP:
            self.add('cmp', node, '%s %s %s' % (
                seg(node.left), CMP_SWAP[type(node.ops[0])],
                seg(node.comparators[0])))
        elif isinstance(node, ast.BoolOp):
            op = ' or ' if isinstance(node.op, ast.And) else ' and '
            self.add('bool', node, '(' + op.join(
                '(%s)' % seg(v) for v in node.values) + ')')
        elif isinstance(node, ast.UnaryOp) and isinstance(node.op, ast.Not):
            self.add('not', node, '(%s)' % seg(node.operand))
        elif isinstance(node, (ast.Raise, ast.Continue, ast.Break)):
            self.add('del', node, 'pass')
        elif isinstance(node, ast.Expr) and isinstance(node.value, ast.Call):
            txt = seg(node)
            if not txt.startswith(('LOG.', 'print(', 'logging.')):
                self.add('del', node, 'pass')
        elif isinstance(node, ast.Constant) and \
                isinstance(node.value, bool):
            self.add('const', node, str(not node.value))
        elif isinstance(node, ast.Constant) and \
                type(node.value) is int and node.value in (0, 1, 2):
            self.add('const', node, str({0: 1, 1: 0, 2: 1}[node.value]))


def enumerate_mutants(pid):
    out = []
    for rel, names in ANCHORS[pid]:
        path = os.path.join(REPO, rel)
        src = open(path).read()
        c = Collector(src, names)
        c.visit(ast.parse(src))
        for (op, q, line, s, e, text) in c.out:
            new = src[:s] + text + src[e:]
            try:
                compile(new, rel, 'exec')
            except SyntaxError:
                continue
            mid = '%s:%s:%d:%s:%s' % (
                pid, os.path.basename(rel).replace('.py', ''), line, op,
                hashlib.sha1((rel + str(s) + text).encode()).hexdigest()[:6])
            out.append({'id': mid, 'property': pid, 'file': rel, 'op': op,
                        'function': q, 'line': line,
                        'old': src[s:e], 'new': text, 'start': s, 'end': e})
    return out


def run_one(m, tier, root):
    d = os.path.join(root, 'am-%d' % os.getpid())
    shutil.rmtree(d, ignore_errors=True)
    subprocess.run(['rsync', '-a', '--exclude', '.git', REPO + '/', d + '/'],
                   check=True)
    res = {'id': m['id'], 'property': m['property'], 'file': m['file'],
           'function': m['function'], 'line': m['line'], 'op': m['op'],
           'old': m['old'][:200], 'new': m['new'][:200], 'tier': tier,
           'at': time.strftime('%Y-%m-%d %H:%M')}
    try:
        path = os.path.join(d, m['file'])
        src = open(path).read()
        open(path, 'w').write(src[:m['start']] + m['new'] + src[m['end']:])
        ev = os.path.join(root, 'am-ev-%d' % os.getpid())
        env = dict(os.environ, VERIF_REPO=d, VERIF_EVIDENCE_DIR=ev)
        t0 = time.time()
        p = subprocess.run([os.path.join(VERIF, 'bin/check'), m['property'],
                            '--tier', tier], env=env, capture_output=True,
                           text=True)
        res['check_exit'] = p.returncode
        res['check_s'] = round(time.time() - t0, 1)
        res['mechanisms'] = sorted({
            l.split('mechanism=')[1].split()[0]
            for l in p.stdout.splitlines()
            if l.startswith('VIOLATION') and 'mechanism=' in l})[:8]
        for l in p.stdout.splitlines():
            if l.startswith('violations by mechanism'):
                res['by_mechanism'] = l[len('violations by mechanism: '):][
                    :400]
            if 'INCONCLUSIVE' in l:
                res['inconclusive'] = l[:300]
        res['outcome'] = {0: 'held', 1: 'violated',
                          2: 'inconclusive'}.get(p.returncode, 'error')
        shutil.rmtree(ev, ignore_errors=True)
        if res['outcome'] != 'violated':
            b = subprocess.run([os.path.join(VERIF, 'tools/baseline.sh'), d],
                               capture_output=True, text=True)
            res['pinned_suite'] = 'passes' if b.returncode == 0 else 'fails'
            res['pinned_suite_line'] = (b.stdout.strip().splitlines() or
                                        [''])[0][:200]
    finally:
        shutil.rmtree(d, ignore_errors=True)
    return res


def main():
    a = sys.argv[1:]

    def opt(name, default=None):
        if name in a:
            i = a.index(name)
            v = a[i + 1]
            del a[i:i + 2]
            return v
        return default
    tier = opt('--tier', 'quick')
    mx = int(opt('--max', '12'))
    seed = opt('--seed', '1')
    ops = opt('--ops')
    if '--list' in a:
        pid = a[a.index('--list') + 1]
        ms = enumerate_mutants(pid)
        for m in ms:
            print(m['id'], m['function'], repr(m['old'][:50]), '->',
                  repr(m['new'][:50]))
        print(len(ms), 'mutants')
        return
    pid = opt('--run')
    only = [x for x in a if ':' in x]
    ms = enumerate_mutants(pid)
    if ops:
        ms = [m for m in ms if m['op'] in ops.split(',')]
    if only:
        sel = [m for m in ms if m['id'] in only]
    else:
        done = set()
        try:
            for l in open(os.path.join(HERE, 'automut_results.jsonl')):
                done.add(json.loads(l)['id'])
        except OSError:
            pass
        ms = [m for m in ms if m['id'] not in done]
        random.Random('%s-%s' % (pid, seed)).shuffle(ms)
        sel = ms[:mx]
    root = os.environ.get('VERIF_SCRATCH') or '/dev/shm'
    for m in sel:
        r = run_one(m, tier, root)
        with open(os.path.join(HERE, 'automut_results.jsonl'), 'a') as f:
            f.write(json.dumps(r) + '\n')
        print('%-44s %-12s %-9s %s %s' % (
            r['id'], r['outcome'], r.get('pinned_suite', ''),
            r['function'], (repr(r['old'][:40]) + ' -> ' +
                            repr(r['new'][:40]))), flush=True)


if __name__ == '__main__':
    main()
