import sys, subprocess, os
name=sys.argv[1]
wt='/tmp/wt-'+name
subprocess.run(['git','-C','/repo','worktree','add','-q',wt,'HEAD'],check=True)
def sub(path, old, new):
    p=os.path.join(wt,path); s=open(p).read(); assert old in s, (name, path); open(p,'w').write(s.replace(old,new,1))
if name=='p1':   # remove w/ branches in the merge loop, push at the end
    sub('bert_e/workflow/gitwaterflow/integration.py',"""        prev = wbranch

    for wbranch in children:
        try:
            wbranch.remove()
        except git.RemoveFailedException:
            # ignore failures as this is non critical
            pass
""","""        prev = wbranch

    for wbranch in reversed(children):
        try:
            wbranch.remove()
        except git.RemoveFailedException:
            pass
""")
if name=='p3':   # statuses queried in reverse order, cached in a dict first
    sub('bert_e/workflow/gitwaterflow/__init__.py',"    statuses = {b.name: status(b) for b in wbranches}","    statuses = {}\n    for b in reversed(wbranches):\n        statuses.setdefault(b.name, status(b))")
if name=='p4':   # reset: decline PRs before deleting the branches
    sub('bert_e/workflow/gitwaterflow/commands.py',"""    for branch in wbranches:
        branch.remove(do_push=False)
    push(job.git.repo, prune=True)

    # decline integration pull requests:
    error_prs = []
    for pr in wprs:
        try:
            pr.decline()
        except Exception:
            error_prs.append(pr)
""","""    # decline integration pull requests:
    error_prs = []
    for pr in list(wprs):
        try:
            pr.decline()
        except Exception:
            error_prs.append(pr)
    for branch in wbranches:
        branch.remove(do_push=False)
    push(job.git.repo, prune=True)
""")
if name=='p6':   # mask both quotings
    sub('bert_e/lib/simplecmd.py',"""    def mask_pwd(data):
        if isinstance(data, str):
            return data.replace(pwd, '***') if pwd else data
        else:
            return data.replace(pwd.encode(), b'***') if pwd else data
""","""    def mask_pwd(data):
        if not pwd:
            return data
        if isinstance(data, str):
            return data.replace(pwd, '***').replace(pwd.replace('+', '%20'), '***')
        else:
            return data.replace(pwd.encode(), b'***')
""")
if name=='p7':   # approvals computed with lists
    sub('bert_e/workflow/gitwaterflow/__init__.py',"    current_leader_approvals += len(approvals.intersection(leaders))","    current_leader_approvals += len([a for a in sorted(approvals) if a in leaders])")
if name=='p8':   # greeting sent after the comments were handled? no: keep; instead: successful merge message reworded
    sub('bert_e/templates/successful_merge.md',"I have successfully merged","I have now merged")
print(wt)
import sys, subprocess, os
name=sys.argv[1]
wt='/tmp/wt-'+name
subprocess.run(['git','-C','/repo','worktree','add','-q',wt,'HEAD'],check=True)
def sub(path, old, new):
    p=os.path.join(wt,path); s=open(p).read(); assert old in s, (name, path); open(p,'w').write(s.replace(old,new,1))
if name=='q1':   # branch_factory: try development before stabilization (disjoint patterns)
    sub('bert_e/workflow/gitwaterflow/branches.py',"    for cls in [StabilizationBranch, DevelopmentBranch, ReleaseBranch,","    for cls in [DevelopmentBranch, StabilizationBranch, ReleaseBranch,")
if name=='q2':   # ignored branches no longer sorted
    sub('bert_e/workflow/gitwaterflow/branches.py',"        self._set_target_versions(dst_branch)\n        self.ignored_branches.sort()","        self._set_target_versions(dst_branch)\n        self.ignored_branches.sort(reverse=True)")
if name=='q3':   # early_checks: NothingToDo instead of NotMyJob (both silent)
    sub('bert_e/workflow/gitwaterflow/__init__.py',"        raise messages.NotMyJob(src, dst)","        raise messages.NothingToDo('%s -> %s is not handled' % (src, dst))")
if name=='q4':   # delete_branch / create_branch: other refusal texts
    sub('bert_e/jobs/create_branch.py',"'Requested new branch %r cannot be '\n                                        'created now due to queued data.'","'Refused: %r would sit below queued '\n                                        'pull requests.'")
print(wt)
