#!/usr/bin/env python3
"""Mutation sanity for the monitors (DESIGN.md section 6).

usage: validation/mutate.py [--tier quick] [--tests] <mutation-id>... | --all | --prop Cxx

Each mutation (validation/mutations.json) is a textual edit of one file of
the repository.  It is applied to a scratch copy (rsync of /repo under
$VERIF_SCRATCH or /dev/shm), the check of its property is run with VERIF_REPO
pointing at the copy, and the copy is removed.  --tests also runs the pinned
test-suite on the copy (the edit must keep it green to be a fair target).
Results are appended to validation/results.jsonl.
"""
import json
import os
import shutil
import subprocess
import sys
import time

HERE = os.path.dirname(os.path.abspath(__file__))
VERIF = os.path.dirname(HERE)


def main():
    args = sys.argv[1:]
    tier = 'quick'
    tests = False
    if '--tier' in args:
        i = args.index('--tier')
        tier = args[i + 1]
        del args[i:i + 2]
    if '--tests' in args:
        tests = True
        args.remove('--tests')
    muts = json.load(open(os.path.join(HERE, 'mutations.json')))
    if '--all' in args:
        sel = muts
    elif '--prop' in args:
        p = args[args.index('--prop') + 1]
        sel = [m for m in muts if m['property'] == p]
    else:
        sel = [m for m in muts if m['id'] in args]
    root = os.environ.get('VERIF_SCRATCH') or '/dev/shm'
    for m in sel:
        d = os.path.join(root, 'mut-%s-%d' % (m['id'], os.getpid()))
        shutil.rmtree(d, ignore_errors=True)
        subprocess.run(['rsync', '-a', '--exclude', '.git', '/repo/', d + '/'],
                       check=True)
        try:
            path = os.path.join(d, m['file'])
            src = open(path).read()
            if m['old'] not in src:
                print('%s: OLD TEXT NOT FOUND in %s' % (m['id'], m['file']))
                continue
            open(path, 'w').write(src.replace(m['old'], m['new'], 1))
            res = {'id': m['id'], 'property': m['property'], 'tier': tier,
                   'at': time.strftime('%Y-%m-%d %H:%M')}
            if tests:
                p = subprocess.run([os.path.join(VERIF, 'tools/baseline.sh'),
                                    d], capture_output=True, text=True)
                res['tests_pass'] = p.returncode == 0
                res['tests'] = p.stdout.strip().splitlines()[:3]
            t0 = time.time()
            e = dict(os.environ, VERIF_REPO=d,
                     VERIF_EVIDENCE_DIR=os.path.join(d, '.evidence'))
            p = subprocess.run([os.path.join(VERIF, 'bin/check'),
                                m['property'], '--tier', tier],
                               capture_output=True, text=True, env=e,
                               cwd=VERIF)
            res['rc'] = p.returncode
            res['wall_s'] = round(time.time() - t0, 1)
            lines = [l for l in p.stdout.splitlines()
                     if l.startswith(('VIOLATION', '  witness', 'INCONC',
                                      'violations by'))]
            res['detected'] = p.returncode == 1 and \
                any(l.startswith('VIOLATION') for l in lines)
            res['first'] = lines[:3]
            print('%-34s %s rc=%s %ss %s' % (
                m['id'], 'DETECTED' if res['detected'] else 'MISSED  ',
                res['rc'], res['wall_s'],
                (lines[0][:150] if lines else '')))
            with open(os.path.join(HERE, 'results.jsonl'), 'a') as f:
                f.write(json.dumps(res) + '\n')
        finally:
            shutil.rmtree(d, ignore_errors=True)


if __name__ == '__main__':
    main()
