"""C14, two requests at once.

`bert-e-serve` runs a threaded server, so two requests can be inside the same
view at the same time.  The statement says a job carries exactly the validated
parameters OF ITS REQUEST and is only created for an authorised caller: state
shared between requests (one view object, a module-level variable, a cached
session) breaks that without any single request looking wrong.

Schedule: request A (always acceptable) runs in its own thread under a line
tracer limited to frames of bert_e/server; when its k-th line event arrives,
request B runs to completion in another thread (A waits), then A goes on.
Every k up to the number of line events of an undisturbed run is tried, for
every (A, B) pair below - one preemption, B atomic, as in C13's enumeration.

Oracle (plain table, from API_DOC.md): afterwards the task queue holds, for
each ACCEPTED request, exactly one job of its type with its own user, url
arguments and validated body; nothing for a refused request; each request got
the status its own table entry says.
"""
import json
import sys
import threading

from vf.http import c14_app

JSON = {'Content-Type': 'application/json', 'Accept': 'application/json'}


def requests_table(cfg):
    adm, adm2, usr = cfg['admin'], cfg['admin2'], cfg['user']
    pr1, pr2 = cfg['pr_ids']

    def job(cls, user, kwargs, params):
        # the job's own settings layer holds the validated body parameters
        # and the url arguments (as in the single-request oracle)
        return {'class': cls, 'user': user, 'kwargs': kwargs,
                'params': dict(params, **kwargs)}
    A = [
        ('create-with-from', 'admin_tx', 'POST',
         '/api/gwf/branches/development/7.4', {'branch_from': 'abc123'},
         202, job('CreateBranchJob', adm, {'branch': 'development/7.4'},
                  {'branch_from': 'abc123'})),
        ('create-plain', 'admin_tx', 'POST',
         '/api/gwf/branches/stabilization/7.4.0', None,
         202, job('CreateBranchJob', adm,
                  {'branch': 'stabilization/7.4.0'}, {})),
        ('delete', 'admin_tx', 'DELETE',
         '/api/gwf/branches/development/6.0', None,
         202, job('DeleteBranchJob', adm, {'branch': 'development/6.0'},
                  {})),
        ('eval-pr', 'user_tx', 'POST', '/api/pull-requests/%d' % pr1, None,
         202, job('EvalPullRequestJob', usr, {'pr_id': pr1}, {})),
        ('rebuild', 'user_tx', 'POST', '/api/gwf/queues', None,
         202, job('RebuildQueuesJob', usr, {}, {})),
        ('force-merge', 'admin_tx', 'PATCH', '/api/gwf/queues', None,
         202, job('ForceMergeQueuesJob', adm, {}, {})),
    ]
    B = [
        ('other-admin-create', 'admin2_tx', 'POST',
         '/api/gwf/branches/development/8.1',
         {'branch_from': 'development/7.4'},
         202, job('CreateBranchJob', adm2, {'branch': 'development/8.1'},
                  {'branch_from': 'development/7.4'})),
        ('bad-branch-from', 'admin2_tx', 'POST',
         '/api/gwf/branches/development/8.2',
         {'branch_from': '--upload-pack=touch x'}, 400, None),
        ('bad-branch-name', 'admin2_tx', 'POST',
         '/api/gwf/branches/feature/8.2', {'branch_from': 'fff'}, 400, None),
        ('plain-user-create', 'user_login', 'POST',
         '/api/gwf/branches/development/8.3', {'branch_from': 'ee11'},
         403, None),
        ('anonymous-delete', 'none', 'DELETE',
         '/api/gwf/branches/development/6.0', None, 401, None),
        ('other-admin-delete', 'admin2_tx', 'DELETE',
         '/api/gwf/branches/development/5.0', None,
         202, job('DeleteBranchJob', adm2, {'branch': 'development/5.0'},
                  {})),
        ('other-eval-pr', 'admin2_tx', 'POST',
         '/api/pull-requests/%d' % pr2, None,
         202, job('EvalPullRequestJob', adm2, {'pr_id': pr2}, {})),
        ('bad-pr-id', 'user_login', 'POST', '/api/pull-requests/0', None,
         400, None),
        ('plain-user-delete-queues', 'user_login', 'DELETE',
         '/api/gwf/queues', None, 403, None),
    ]
    return A, B


def _describe(job):
    d = c14_app.describe_job(job)
    return {'class': d['class'], 'user': d.get('user'),
            'kwargs': d.get('kwargs') or {}, 'params': d.get('params')}


def _norm(d):
    return json.dumps(d, sort_keys=True, default=str)


def _send(world, req):
    name, kind, method, target, body, _, _ = req
    client = world.client(kind)
    resp = client.open(target, method=method, headers=JSON,
                       data=json.dumps({} if body is None else body))
    return resp.status_code


def run_pair(world, a, b, k):
    """A preempted by the whole of B before A's k-th line event in
    bert_e/server (k=None: never).  Returns (status A, status B, jobs,
    number of line events of A, B ran)."""
    state = {'n': 0, 'b_status': None, 'b_ran': False, 'error': None}

    def run_b():
        try:
            state['b_status'] = _send(world, b)
        except Exception as err:          # pragma: no cover
            state['error'] = 'B: %s: %s' % (type(err).__name__, err)

    def local(frame, event, arg):
        if event == 'line':
            state['n'] += 1
            if k is not None and state['n'] == k and not state['b_ran']:
                state['b_ran'] = True
                sys.settrace(None)
                t = threading.Thread(target=run_b)
                t.start()
                t.join(60)
                if t.is_alive():
                    state['error'] = 'B did not finish'
                sys.settrace(tracer)
        return local

    def tracer(frame, event, arg):
        if '/bert_e/server/' in frame.f_code.co_filename:
            return local
        return None

    out = {}

    def run_a():
        sys.settrace(tracer)
        try:
            out['a_status'] = _send(world, a)
        except Exception as err:
            state['error'] = 'A: %s: %s' % (type(err).__name__, err)
        finally:
            sys.settrace(None)
    ta = threading.Thread(target=run_a)
    ta.start()
    ta.join(120)
    if ta.is_alive():
        state['error'] = 'A did not finish'
    jobs = [_describe(j) for j in world.drain()]
    return (out.get('a_status'), state['b_status'], jobs, state['n'],
            state['b_ran'], state['error'])


def judge(acc, seed, a, b, k, res):
    a_status, b_status, jobs, n, b_ran, error = res
    wit = {'concurrent': True, 'seed': seed, 'a': a[0], 'b': b[0], 'k': k}
    if error:
        acc.count('c14c_harness_errors')
        acc.notes.append('c14 concurrent %s/%s k=%s: %s' % (a[0], b[0], k,
                                                             error))
        return
    if not b_ran:
        acc.count('c14c_preemption_point_not_reached')
        return
    acc.evals += 1
    acc.count('c14c_interleavings')
    acc.nontrivial('concurrent|%s|%s|k=%d' % (a[0], b[0], k))
    expected = [r[6] for r in (a, b) if r[6] is not None]
    got = sorted(_norm(j) for j in jobs)
    want = sorted(_norm(j) for j in expected)
    desc = ('A=%s (%s %s) preempted before its line event %d by B=%s (%s '
            '%s): ' % (a[0], a[2], a[3], k, b[0], b[2], b[3]))
    if a_status != a[5] or b_status != b[5]:
        acc.violation(
            'concurrent-requests:status-of-one-request-depends-on-the-other',
            desc + 'statuses A=%s B=%s, expected A=%s B=%s' % (
                a_status, b_status, a[5], b[5]),
            dict(wit, got_status=[a_status, b_status]))
    if got != want:
        extra = [j for j in got if j not in want]
        mech = ('concurrent-requests:job-carries-something-of-the-other-'
                'request' if extra and len(got) == len(want) else
                'concurrent-requests:wrong-number-of-jobs')
        acc.violation(mech, desc + 'queue holds %s, expected %s' % (
            got, want), dict(wit, jobs=jobs, expected=expected))
    else:
        acc.count('c14c_jobs_match_their_own_requests')
        if b[6] is None:
            acc.count('c14c_refused_request_left_nothing')
        if len(acc.samples) < 12 and k % 17 == 3:
            acc.sample({'concurrent': True, 'A': list(a[:5]),
                        'B': list(b[:5]),
                        'B_ran_before_line_event_of_A': k,
                        'statuses': [a_status, b_status], 'jobs': jobs})


def run_logout(world, acc, seed):
    """A session that logged out is session state "none": the same cookie
    jar, after GET /logout, creates no job any more."""
    cfg = world.cfg
    makers = [
        ('admin-written', lambda: world.tx_client(cfg['admin'], True)),
        ('user-written', lambda: world.tx_client(cfg['user'], False)),
        ('admin-token', lambda: world.login_client('tok-admin')[0]),
        ('user-token', lambda: world.login_client('tok-user')[0]),
    ]
    probes = [('POST', '/api/pull-requests/%d' % cfg['pr_ids'][0]),
              ('POST', '/api/gwf/queues'),
              ('DELETE', '/api/gwf/queues'),
              ('POST', '/api/gwf/branches/development/9.9')]
    for name, make in makers:
        for method, target in probes:
            client = make()
            world.drain()
            before = client.open(probes[0][1], method='POST', headers=JSON,
                                 data='{}').status_code
            world.drain()
            out = client.open('/logout', method='GET').status_code
            after = client.open(target, method=method, headers=JSON,
                                data='{}').status_code
            jobs = [_describe(j) for j in world.drain()]
            acc.evals += 1
            acc.count('c14c_logout_cells')
            acc.nontrivial('logout|%s|%s %s' % (name, method, target))
            if before != 202:
                acc.inconc('c14 logout: the %s session was not accepted '
                           'before logging out (%s)' % (name, before))
                continue
            if after not in (401, 403) or jobs:
                acc.violation(
                    'logged-out-session-still-creates-jobs',
                    '%s session: accepted (202), GET /logout -> %s, then %s '
                    '%s -> %s with jobs %s' % (name, out, method, target,
                                               after, jobs),
                    {'concurrent': True, 'logout': True, 'seed': seed})


def run(acc, seed, shard, nshards, tier):
    cfg = c14_app.config(seed)
    world = c14_app.World('bitbucket', cfg)
    c14_app._ACTIVE[0] = world
    try:
        A, B = requests_table(cfg)
        for kind in ('admin_tx', 'admin2_tx', 'user_tx', 'user_login'):
            if world.client(kind) is None:
                acc.inconc('c14 concurrent: no session of kind %s' % kind)
                return
        world.drain()
        if shard == 0:
            run_logout(world, acc, seed)
        pairs = [(a, b) for a in A for b in B]
        for i, (a, b) in enumerate(pairs):
            if i % nshards != shard:
                continue
            base = run_pair(world, a, b, None)
            if base[5] or base[0] != a[5]:
                acc.inconc('c14 concurrent: undisturbed request %s answered '
                           '%s (%s)' % (a[0], base[0], base[5]))
                continue
            n = base[3]
            acc.seen('c14c_line_events_of_an_undisturbed_request',
                     '%s:%d' % (a[0], n))
            step = 1 if tier == 'thorough' or n <= 80 else 2
            for k in range(1, n + 1, step):
                judge(acc, seed, a, b, k, run_pair(world, a, b, k))
    finally:
        c14_app._ACTIVE[0] = None
        world.close()


def replay(w, acc):
    cfg = c14_app.config(w['seed'])
    world = c14_app.World('bitbucket', cfg)
    c14_app._ACTIVE[0] = world
    try:
        if w.get('logout'):
            return run_logout(world, acc, w['seed'])
        A, B = requests_table(cfg)
        a = [x for x in A if x[0] == w['a']][0]
        b = [x for x in B if x[0] == w['b']][0]
        for kind in ('admin_tx', 'admin2_tx', 'user_tx', 'user_login'):
            world.client(kind)
        world.drain()
        judge(acc, w['seed'], a, b, w['k'], run_pair(world, a, b, w['k']))
    finally:
        c14_app._ACTIVE[0] = None
        world.close()
