"""A scripted `requests` transport adapter (used by C17, reusable by C16/C14).

It is mounted on the real session of a git-host client (``github.Client``
keeps a ``BertESession`` in ``.session``; ``bitbucket.Client`` *is* one), so
everything above the transport - ``BertESession.request`` with its retry
loop, ``Client._get`` with the conditional-request cache, header merging,
authentication, ``raise_for_status``, the marshmallow schemas - runs
unmodified.  Nothing ever reaches a socket.

Every request is answered either

* from a *script*: a list whose items are consumed in order, or
* by a *responder*: a callable ``responder(recorded_request)`` returning one
  item (a small simulated host).

An item is

* a ``Reply(status, json=..., headers=..., body=...)``,
* a ``dict`` with those keys, or a bare ``int`` status,
* an exception instance or class (``requests.ConnectionError``,
  ``requests.Timeout``, ...) which is raised from ``send`` exactly as a
  transport failure would be.

Every request is recorded *before* it is answered, with method, url, the
final merged headers (so secrets put in ``Authorization`` can be looked for)
and the body: ``adapter.requests`` is a list of ``Recorded``.
"""
import json as _json
from collections import namedtuple
from types import SimpleNamespace
from urllib.parse import urlsplit, parse_qsl

import requests
from requests.adapters import BaseAdapter
from requests.structures import CaseInsensitiveDict

REASONS = {200: 'OK', 201: 'Created', 202: 'Accepted', 204: 'No Content',
           301: 'Moved Permanently', 304: 'Not Modified', 400: 'Bad Request',
           401: 'Unauthorized', 403: 'Forbidden', 404: 'Not Found',
           409: 'Conflict', 422: 'Unprocessable Entity',
           429: 'Too Many Requests', 500: 'Internal Server Error',
           502: 'Bad Gateway', 503: 'Service Unavailable'}


class Recorded(namedtuple('Recorded', 'method url path query headers body')):
    """One request as it left the session.  ``headers`` is a plain dict
    (original case), ``query`` a dict, ``body`` str/bytes/None."""
    __slots__ = ()

    def header(self, name, default=None):
        low = name.lower()
        for k, v in self.headers.items():
            if k.lower() == low:
                return v
        return default

    def as_json(self):
        return {'method': self.method, 'url': self.url,
                'headers': dict(self.headers),
                'body': self.body.decode('utf-8', 'replace')
                if isinstance(self.body, bytes) else self.body}


class Reply:
    __slots__ = ('status', 'json', 'headers', 'body')

    def __init__(self, status=200, json=None, headers=None, body=None):
        self.status = status
        self.json = json
        self.headers = headers or {}
        self.body = body

    def __repr__(self):
        return 'Reply(%r, json=%r, headers=%r, body=%r)' % (
            self.status, self.json, self.headers, self.body)


class ScriptExhausted(AssertionError):
    """The code under test made a request the script did not foresee."""


def as_reply(item):
    if isinstance(item, Reply):
        return item
    if isinstance(item, int):
        return Reply(item)
    if isinstance(item, dict):
        return Reply(item.get('status', 200), item.get('json'),
                     item.get('headers'), item.get('body'))
    raise TypeError('cannot use %r as a scripted reply' % (item,))


class ScriptedAdapter(BaseAdapter):
    def __init__(self, script=None, responder=None, record=True,
                 max_records=100000):
        super().__init__()
        self.script = list(script or [])
        self.responder = responder
        self.record = record
        self.max_records = max_records
        self.requests = []
        self.count = 0
        self.raised = 0

    # -- script management ---------------------------------------------------
    def push(self, *items):
        self.script.extend(items)

    def reset(self):
        del self.requests[:]
        del self.script[:]
        self.count = 0
        self.raised = 0

    # -- requests transport interface ---------------------------------------
    def send(self, request, stream=False, timeout=None, verify=True,
             cert=None, proxies=None):
        parts = urlsplit(request.url)
        rec = Recorded(request.method, request.url, parts.path,
                       dict(parse_qsl(parts.query)), dict(request.headers),
                       request.body)
        self.count += 1
        if self.record and len(self.requests) < self.max_records:
            self.requests.append(rec)
        if self.responder is not None:
            item = self.responder(rec)
        elif self.script:
            item = self.script.pop(0)
        else:
            raise ScriptExhausted('unscripted request %s %s'
                                  % (request.method, request.url))
        if isinstance(item, type) and issubclass(item, BaseException):
            item = item('scripted %s for %s %s' % (
                item.__name__, request.method, request.url))
        if isinstance(item, BaseException):
            self.raised += 1
            if isinstance(item, requests.RequestException) and \
                    item.request is None:
                item.request = request
            raise item
        return self.build(request, as_reply(item))

    @staticmethod
    def build(request, reply):
        resp = requests.Response()
        resp.status_code = reply.status
        resp.reason = REASONS.get(reply.status, '')
        headers = CaseInsensitiveDict(reply.headers)
        if reply.body is not None:
            content = reply.body if isinstance(reply.body, bytes) \
                else str(reply.body).encode('utf-8')
        elif reply.json is not None:
            content = _json.dumps(reply.json).encode('utf-8')
            headers.setdefault('Content-Type',
                               'application/json; charset=utf-8')
        else:
            content = b''
        headers.setdefault('Content-Length', str(len(content)))
        resp.headers = headers
        resp._content = content
        resp._content_consumed = True
        resp.encoding = 'utf-8'
        resp.url = request.url
        resp.request = request
        resp.connection = None
        return resp

    def close(self):
        pass


def session_of(client):
    """The requests session of a git-host client (github keeps one,
    bitbucket is one)."""
    sess = getattr(client, 'session', None)
    if isinstance(sess, requests.Session):
        return sess
    if isinstance(client, requests.Session):
        return client
    raise TypeError('no requests session on %r' % (client,))


def mount(client, adapter):
    """Route every http(s) request of the client through the adapter."""
    sess = session_of(client)
    for prefix in list(sess.adapters):
        sess.adapters.pop(prefix)
    sess.mount('https://', adapter)
    sess.mount('http://', adapter)
    # the environment must not add proxies / .netrc credentials
    sess.trust_env = False
    return adapter


def patch_sleep():
    """BertESession naps 30 s and 60 s between attempts on 429/500/502.
    Replace the ``time`` name of bert_e.git_host.base (only there) by an
    object whose sleep() records the nap.  Returns the list of naps."""
    import time as _time
    from bert_e.git_host import base
    naps = []
    base.time = SimpleNamespace(sleep=naps.append, time=_time.time)
    return naps
