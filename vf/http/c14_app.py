"""C14 harness: the real Flask application of bert_e.server around a light
Bert-E, driven with the Flask test client; nothing reaches a socket.

* ``World(host, cfg, ...)`` builds the application with the real
  ``bert_e.server.setup_server`` around a ``BertE`` whose constructor is
  replaced (as ``bert_e/tests/test_server.py`` does): real ``put_job``,
  ``get_job(s)_as_json``, a real ``task_queue``; settings come from the real
  ``SettingsSchema``; the git-host client is the mock client (bitbucket, as in
  test_server.py) or a real ``github.Client`` (github).
* The only replaced piece of the stack is the socket layer:
  ``requests.adapters.HTTPAdapter.send``.  Requests to ``http://localhost/``
  (the management forms call the API with ``requests.request`` and the caller's
  cookies) are routed into a Flask test client of the same application, so the
  whole form -> API -> job chain runs; requests to ``api.bitbucket.org`` /
  ``api.github.com`` are answered by a few lines of simulated git host (user
  profile for the OAuth token login of ``/api/auth``, pull request and workflow
  runs for the github webhooks); anything else raises ``ConnectionError``.
* Sessions are either written the way test_server.py does
  (``client.session_transaction()``) or obtained through the real
  ``/api/auth?access_token=`` flow.
* The server hard-codes the flask-session directory (/tmp/bert-e-sessions,
  pruned above 500 files, shared by every process of the machine); the harness
  re-initialises flask-session on a private scratch directory so that
  concurrent runs cannot evict each other's sessions.
"""
import base64
import datetime
import json
import os
import shutil
import tempfile
from collections import deque
from queue import Queue
from types import SimpleNamespace
from urllib.parse import urlsplit, parse_qs

JSON_HEADERS = {'Content-Type': 'application/json',
                'Accept': 'application/json'}

_ACTIVE = [None]          # the World whose request is being served
_INSTALLED = [False]
UNEXPECTED = []           # outgoing requests nobody scripted


def config(seed):
    """Everything that names something, derived from the seed."""
    n = seed % 89
    return {
        'owner': 'acme%d' % n,
        'slug': 'widget%d' % n,
        'other_owner': 'acme%d' % (n + 1),
        'other_slug': 'widget%d' % (n + 1),
        'admin': 'root-adm%d' % n,
        'admin2': 'second-adm%d' % n,
        'admin2_account': 'acc-%d' % (7000 + n),
        'user': 'plain-user%d' % n,
        'leader': 'lead-dev%d' % n,
        'hook_login': 'hook%d' % n,
        'hook_pwd': 'pw:%d:s3cret' % n,      # a password may contain ':'
        'organization': 'corp%d.example' % n,
        'pr_ids': [11 + n, 4000 + n],
        'sha_ok': ('%040x' % (0xabcdef0123456789 * (n + 3)))[-40:],
        'sha_running': ('%040x' % (0x123456789abcdef * (n + 5)))[-40:],
    }


def tokens(cfg):
    """access token -> (handle as the git host spells it, e-mail)."""
    org = cfg['organization']
    return {
        'tok-admin': (cfg['admin'], 'a@' + org),
        'tok-admin-upper': (cfg['admin'].upper(), 'a@' + org),
        'tok-admin2': (cfg['admin2'], 'b@' + org),
        'tok-user': (cfg['user'], 'u@' + org),
        'tok-leader': (cfg['leader'], 'l@' + org),
        'tok-user-foreign-mail': (cfg['user'], 'u@elsewhere.example'),
        'tok-admin-foreign-mail': (cfg['admin'], 'a@not' + org),
        'tok-user-nomail': (cfg['user'], None),
    }


# --------------------------------------------------------------------------
# transport
# --------------------------------------------------------------------------
def _response(req, status, body=b'', headers=None):
    import requests
    from requests.structures import CaseInsensitiveDict
    r = requests.Response()
    r.status_code = status
    r._content = body if isinstance(body, bytes) else body.encode()
    r.headers = CaseInsensitiveDict(headers or {})
    r.url = req.url
    r.request = req
    r.reason = str(status)
    r.encoding = 'utf-8'
    r.elapsed = datetime.timedelta(0)
    return r


def _json_response(req, status, obj):
    return _response(req, status, json.dumps(obj),
                     {'Content-Type': 'application/json'})


def _bearer(req):
    auth = req.headers.get('Authorization') or ''
    parts = auth.split(None, 1)
    return parts[1] if len(parts) == 2 else None


def github_pr(cfg, number, owner=None, slug=None):
    owner = owner or cfg['owner']
    slug = slug or cfg['slug']
    repo = github_repo(owner, slug)
    user = {'id': 4242, 'login': 'Dev-Eloper', 'type': 'User'}
    return {
        'number': number,
        'url': 'https://api.github.com/repos/%s/%s/pulls/%d' % (
            owner, slug, number),
        'html_url': 'https://github.com/%s/%s/pull/%d' % (
            owner, slug, number),
        'comments_url': 'https://api.github.com/repos/%s/%s/issues/%d/'
                        'comments' % (owner, slug, number),
        'review_comments_url': 'https://api.github.com/repos/%s/%s/pulls/'
                               '%d/comments' % (owner, slug, number),
        'state': 'open', 'title': 'bugfix: something', 'body': 'text',
        'user': user,
        'head': {'label': '%s:bugfix/X-1' % owner, 'ref': 'bugfix/X-1',
                 'sha': 'f' * 40, 'user': user, 'repo': repo},
        'base': {'label': '%s:development/1.0' % owner,
                 'ref': 'development/1.0', 'sha': 'e' * 40, 'user': user,
                 'repo': repo},
        'created_at': '2020-01-02T03:04:05Z',
        'updated_at': '2020-01-02T03:04:06Z',
        'closed_at': None, 'merged_at': None,
    }


def github_repo(owner, slug):
    return {'name': slug, 'full_name': '%s/%s' % (owner, slug),
            'owner': {'id': 99, 'login': owner, 'type': 'Organization'},
            'description': None, 'private': True,
            'git_url': 'git://github.com/%s/%s.git' % (owner, slug),
            'clone_url': 'https://github.com/%s/%s.git' % (owner, slug),
            'default_branch': 'development/1.0'}


def github_runs(cfg, sha):
    def run(rid, status, conclusion):
        return {'id': rid, 'head_sha': sha, 'head_branch': 'q/1.0',
                'status': status, 'conclusion': conclusion,
                'check_suite_id': rid + 1,
                'html_url': 'https://github.com/x/y/actions/runs/%d' % rid,
                'event': 'push', 'workflow_id': 5,
                'repository': github_repo(cfg['owner'], cfg['slug'])}
    if sha == cfg['sha_ok']:
        runs = [run(11, 'completed', 'success')]
    elif sha == cfg['sha_running']:
        runs = [run(12, 'in_progress', None)]
    else:
        runs = []
    return {'total_count': len(runs), 'workflow_runs': runs}


def _simulated_host(world, req, parts):
    cfg = world.cfg
    path = parts.path
    tok = _bearer(req)
    known = tokens(cfg)
    if parts.netloc == 'api.bitbucket.org':
        if path == '/2.0/user':
            if tok not in known:
                return _json_response(req, 401, {'type': 'error'})
            handle = known[tok][0]
            return _json_response(req, 200, {
                'username': handle, 'display_name': handle.title(),
                'account_id': 'aid-' + handle, 'website': None,
                'location': None, 'links': {'avatar': {
                    'href': 'https://bitbucket.org/account/%s/avatar/'
                            % handle}}})
        if path == '/2.0/user/emails':
            if tok not in known:
                return _json_response(req, 401, {'type': 'error'})
            mail = known[tok][1]
            values = [] if mail is None else [
                {'email': mail, 'is_primary': True, 'is_confirmed': True}]
            return _json_response(req, 200, {'values': values})
    if parts.netloc == 'api.github.com':
        if path == '/user' and req.method == 'GET' and \
                (req.headers.get('Authorization') or '').startswith('Bearer'):
            if tok not in known:
                return _json_response(req, 401, {'message': 'Bad creds'})
            handle, mail = known[tok]
            return _json_response(req, 200, {
                'id': 31337, 'login': handle, 'name': handle.title(),
                'email': mail, 'html_url': 'https://github.com/' + handle,
                'avatar_url': 'https://avatars.example/' + handle,
                'blog': '', 'updated_at': '2020-01-02T03:04:05Z'})
        segs = path.strip('/').split('/')
        if len(segs) == 5 and segs[0] == 'repos' and segs[3] == 'pulls' \
                and req.method == 'GET':
            world.host_calls.append(('pull', segs[1], segs[2], segs[4]))
            if (segs[1], segs[2]) == (cfg['owner'], cfg['slug']) and \
                    segs[4].isdigit() and int(segs[4]) in cfg['pr_ids']:
                return _json_response(req, 200,
                                      github_pr(cfg, int(segs[4])))
            return _json_response(req, 404, {'message': 'Not Found'})
        if len(segs) == 5 and segs[0] == 'repos' and \
                segs[3:] == ['actions', 'runs'] and req.method == 'GET':
            sha = parse_qs(parts.query).get('head_sha', [''])[0]
            world.host_calls.append(('runs', segs[1], segs[2], sha))
            if (segs[1], segs[2]) != (cfg['owner'], cfg['slug']):
                return _json_response(req, 404, {'message': 'Not Found'})
            return _json_response(req, 200, github_runs(cfg, sha))
    return None


def _route(adapter, req, **kwargs):
    import requests
    world = _ACTIVE[0]
    parts = urlsplit(req.url)
    if world is not None and parts.netloc in ('localhost', 'localhost:80') \
            and parts.scheme == 'http':
        # the management form calling its API endpoint: same application,
        # the headers (cookies included) exactly as the form forwarded them
        headers = [(k, v) for k, v in req.headers.items()
                   if k.lower() not in ('content-length', 'host')]
        body = req.body
        if isinstance(body, str):
            body = body.encode()
        target = parts.path + ('?' + parts.query if parts.query else '')
        world.internal_calls.append((req.method, target))
        inner = world.app.test_client(use_cookies=False)
        resp = inner.open(target, method=req.method, headers=headers,
                          data=body)
        return _response(req, resp.status_code, resp.get_data(),
                         dict(resp.headers))
    if world is not None:
        answer = _simulated_host(world, req, parts)
        if answer is not None:
            return answer
    UNEXPECTED.append('%s %s' % (req.method, req.url))
    raise requests.ConnectionError('C14 harness: no network (%s %s)' % (
        req.method, req.url))


def install_transport():
    if _INSTALLED[0]:
        return
    import requests.adapters
    requests.adapters.HTTPAdapter.send = _route
    import bert_e.git_host.base as ghbase
    ghbase.time = SimpleNamespace(sleep=lambda s: None, time=ghbase.time.time)
    _INSTALLED[0] = True


# --------------------------------------------------------------------------
# the application
# --------------------------------------------------------------------------
class Seen:
    """One observed request: status + what it added to the task queue."""
    def __init__(self, status, location, data, jobs):
        self.status = status
        self.location = location
        self.data = data
        self.jobs = jobs          # list of real job objects

    def describe_jobs(self):
        return [describe_job(j) for j in self.jobs]


def describe_job(job):
    d = {'class': type(job).__name__, 'module': type(job).__module__,
         'user': getattr(job, 'user', None)}
    try:
        params = job.settings.maps[0]
        d['params'] = params if isinstance(params, dict) else \
            {'<not a dict>': repr(params)}
    except Exception as err:      # pragma: no cover
        d['params'] = {'<unreadable>': repr(err)}
    if hasattr(job, 'kwargs'):
        d['kwargs'] = job.kwargs
    if hasattr(job, 'pull_request'):
        try:
            d['pr_id'] = job.pull_request.id
        except Exception as err:
            d['pr_id'] = '<unreadable: %r>' % err
    if hasattr(job, 'commit'):
        d['commit'] = job.commit
    return d


def _memoise_get_distribution(server):
    """Speed-up only: every template render asks pkg_resources for the
    version of bert_e (a 30 ms scan of sys.path); same answer, or same
    exception, every time."""
    real = server.get_distribution
    if getattr(real, '_c14_memo', False):
        return
    memo = {}

    def get_distribution(name):
        if name not in memo:
            try:
                memo[name] = (real(name), None)
            except Exception as err:
                memo[name] = (None, err)
        dist, err = memo[name]
        if err is not None:
            raise err
        return dist
    get_distribution._c14_memo = True
    server.get_distribution = get_distribution


class World:
    def __init__(self, host, cfg, organization='', scratch=None):
        install_transport()
        os.environ['WEBHOOK_LOGIN'] = cfg['hook_login']
        os.environ['WEBHOOK_PWD'] = cfg['hook_pwd']
        os.environ['BERT_E_CLIENT_ID'] = 'client-id'
        os.environ['BERT_E_CLIENT_SECRET'] = 'client-secret'
        from bert_e import bert_e as bert_e_module, server
        from bert_e.settings import SettingsSchema

        self.host = host
        self.cfg = cfg
        self.organization = organization
        self.internal_calls = []
        self.host_calls = []
        self.own_scratch = scratch is None
        self.scratch = scratch or tempfile.mkdtemp(
            prefix='vf-c14-', dir='/dev/shm' if os.path.isdir('/dev/shm')
            else None)

        settings = SettingsSchema().load({
            'repository_host': host,
            'repository_owner': cfg['owner'],
            'repository_slug': cfg['slug'],
            'robot': 'the-robot', 'robot_email': 'robot@nowhere.invalid',
            'admins': [cfg['admin'],
                       '%s@%s' % (cfg['admin2'], cfg['admin2_account'])],
            'project_leaders': [cfg['leader']],
            'required_peer_approvals': '0',
            'organization': organization,
        })
        if host == 'github':
            from bert_e.git_host import github
            client = github.Client('the-robot', 'robot-password',
                                   'robot@nowhere.invalid')
        else:
            from bert_e.git_host import mock as mock_api
            client = mock_api.Client('the-robot', 'robot-password',
                                     'robot@nowhere.invalid')
        project_repo = SimpleNamespace(
            owner=cfg['owner'], slug=cfg['slug'],
            full_name='%s/%s' % (cfg['owner'], cfg['slug']))

        class LightBertE(bert_e_module.BertE):
            def __init__(self):           # constructor replaced, rest real
                self.settings = settings
                self.client = client
                self.project_repo = project_repo
                self.git_repo = SimpleNamespace(reset=lambda: None)
                self.task_queue = Queue()
                self.tasks_done = deque(maxlen=1000)
                self.status = {}

        self.bert_e = LightBertE()
        _memoise_get_distribution(server)
        self.app = server.setup_server(self.bert_e)
        # private session store (see module docstring)
        import flask_session
        sess_dir = os.path.join(self.scratch, 'sessions-%s-%s' % (
            host, 'org' if organization else 'noorg'))
        os.makedirs(sess_dir, exist_ok=True)
        self.app.config['SESSION_FILE_DIR'] = sess_dir
        self.app.config['SESSION_FILE_THRESHOLD'] = 10 ** 6
        flask_session.Session(self.app)
        self._clients = {}
        self._csrf = {}

    def close(self):
        if self.own_scratch:
            shutil.rmtree(self.scratch, ignore_errors=True)

    # -- queue ---------------------------------------------------------------
    def drain(self):
        jobs = []
        q = self.bert_e.task_queue
        while not q.empty():
            jobs.append(q.get())
            q.task_done()
        return jobs

    # -- sessions --------------------------------------------------------------
    def tx_client(self, user, admin):
        """Session written directly, as test_server.py's test_client()."""
        client = self.app.test_client()
        with client.session_transaction() as sess:
            sess['user'] = user
            sess['admin'] = admin
        return client

    def login_client(self, token):
        """Session obtained through the real /api/auth flow.  Returns
        (client, status of the login request)."""
        client = self.app.test_client()
        seen = self.request(client, 'GET', '/api/auth?access_token=' + token,
                            headers=JSON_HEADERS)
        return client, seen

    def client(self, kind):
        """Persistent clients, one per session kind."""
        if kind == 'none':
            return self.app.test_client()
        if kind in self._clients:
            return self._clients[kind]
        cfg = self.cfg
        if kind == 'none_tx':
            c = self.tx_client(None, False)
        elif kind == 'user_tx':
            c = self.tx_client(cfg['user'], False)
        elif kind == 'admin_tx':
            c = self.tx_client(cfg['admin'], True)
        elif kind == 'admin2_tx':
            c = self.tx_client(cfg['admin2'], True)
        elif kind == 'user_login':
            c, seen = self.login_client('tok-user')
            if seen.status != 200:
                c = None
        elif kind == 'admin_login':
            c, seen = self.login_client('tok-admin')
            if seen.status != 200:
                c = None
        else:
            raise ValueError(kind)
        self._clients[kind] = c
        return c

    def session_user(self, kind):
        return {'user_tx': self.cfg['user'], 'user_login': self.cfg['user'],
                'admin_tx': self.cfg['admin'],
                'admin_login': self.cfg['admin'],
                'admin2_tx': self.cfg['admin2']}.get(kind)

    def csrf_token(self, kind):
        """The CSRF token the management page hands to this session (read
        once per session: it stays valid for the session's lifetime)."""
        if kind not in self._csrf:
            self._csrf[kind] = self._read_csrf_token(kind)
        return self._csrf[kind]

    def _read_csrf_token(self, kind):
        c = self.client(kind)
        if c is None or kind in ('none', 'none_tx'):
            return None
        seen = self.request(c, 'GET', '/manage')
        page = seen.data.decode('utf-8', 'replace')
        marker = 'name="csrf_token"'
        i = page.find(marker)
        if i < 0:
            return None
        j = page.find('value="', i)
        if j < 0:
            return None
        j += len('value="')
        return page[j:page.find('"', j)]

    # -- requests ----------------------------------------------------------------
    def request(self, client, method, target, headers=None, data=None):
        """One request; returns Seen (status, Location, body, new jobs)."""
        leftover = self.drain()
        assert not leftover, 'queue not empty before the request'
        _ACTIVE[0] = self
        try:
            resp = client.open(target, method=method, headers=headers or {},
                               data=data)
            status, loc, body = (resp.status_code,
                                 resp.headers.get('Location'),
                                 resp.get_data())
        finally:
            _ACTIVE[0] = None
        return Seen(status, loc, body, self.drain())


def basic_auth(login, password, scheme='Basic'):
    raw = ('%s:%s' % (login, password)).encode()
    return '%s %s' % (scheme, base64.b64encode(raw).decode())
