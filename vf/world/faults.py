"""Fault and schedule placement around one job of a world (C02, C08).

For an explored job the harness first runs a *reference* child (no fault, refs
traced around every push), then one child per placement; every child starts
from the same state (fork snapshot) and reports JSON.
"""
import os

from vf.world import monitors, oracle
from vf.world.fork import fork_try
from vf.world.world import ROBOT, rec_summary

RESET_STATUSES = ('QueueOutOfOrder', 'IncoherentQueues')


# ---------------------------------------------------------------------------
def user_prs(snap):
    return [p for p in snap.prs if p['author'] != ROBOT]


def all_or_none(world, prs, refs):
    """For every pull request and every tip its source branch ever had: the
    tip is in all targets or in none.  Returns a list of witnesses."""
    bad = []
    names = list(refs)
    for pr in prs:
        tgts = [t for t in oracle.targets(names, pr['dst']) if t in refs]
        if len(tgts) < 2:
            continue
        for tip in world.tip_history.get(pr['src'], []):
            inc = [world.is_ancestor(tip, refs[t]) for t in tgts]
            if any(inc) and not all(inc):
                bad.append({'pr': pr['id'], 'source_tip': tip[:10],
                            'contained_in': [t for t, i in zip(tgts, inc)
                                             if i],
                            'missing_from': [t for t, i in zip(tgts, inc)
                                             if not i]})
    return bad


def observe(world, prs0, label, out):
    """all-or-none + C01 inclusion on the current remote"""
    world.snap_tips()
    refs = world.refs()[0]
    for b in all_or_none(world, prs0, refs):
        out.append({'kind': 'partial-landing', 'when': label, 'detail': b})
    broken = monitors.broken_pairs(world, {n: s for n, s in refs.items()
                                           if oracle.is_dest(n)})
    if broken:
        out.append({'kind': 'inclusion-broken', 'when': label,
                    'detail': broken})


def dest_trees(world):
    refs = world.refs()[0]
    return {n: world.tree(n) for n in sorted(refs) if oracle.is_dest(n)}


def drain_to_completion(world, prs0, label, out, rounds=5):
    """approve nothing (worlds need no approval), mark every source / w / q
    tip green, evaluate every open PR and the queue until nothing changes"""
    for rnd in range(rounds):
        refs0 = world.refs()[0]
        snap = world.snapshot()
        open_prs = [p for p in user_prs(snap) if p['state'] == 'OPEN']
        if not open_prs and not any(n.startswith('q/w/') for n in refs0):
            break
        for p in open_prs:
            for n in refs0:
                if n == p['src'] or (n.startswith('w/') and
                                     n.endswith('/' + p['src'])):
                    world.a_set_status('tip:' + n, 'SUCCESSFUL')
        for p in open_prs:
            rec = world.run('pr', p['id'], record=False)
            world.drain()
            observe(world, prs0, '%s/drain%d/pr%d:%s' % (
                label, rnd, p['id'], rec['status']), out)
            if rec['status'] in RESET_STATUSES:
                queue_reset(world, prs0, out)
        refs1 = world.refs()[0]
        qs = [n for n in sorted(refs1) if n.startswith('q/')]
        for n in qs:
            world.a_set_status('tip:' + n, 'SUCCESSFUL')
        if qs:
            rec = world.run('commit', 'tip:' + qs[-1], record=False)
            world.drain()
            observe(world, prs0, '%s/drain%d/queue:%s' % (
                label, rnd, rec['status']), out)
            if rec['status'] in RESET_STATUSES:
                queue_reset(world, prs0, out)
        if world.refs()[0] == refs0:
            break


def queue_reset(world, prs0, out):
    """the documented queue reset: the rebuild-queues job; if that job itself
    fails, the delete-queues job (the pull requests are then re-evaluated by
    the drain)"""
    r = world.run('rebuild_queues', record=False)
    world.drain()
    observe(world, prs0, 'after-rebuild:%s' % r['status'], out)
    if r['status'] == 'JobSuccess':
        return 'rebuild'
    r2 = world.run('delete_queues', record=False)
    world.drain()
    observe(world, prs0, 'after-delete-queues:%s' % r2['status'], out)
    return 'rebuild(%s)+delete-queues(%s)' % (r['status'], r2['status'])


# ---------------------------------------------------------------------------
def reference_child(world, event, drain=True):
    """Runs the job without fault, tracing the refs around each push."""
    kind, arg, kw = event

    def child():
        prs0 = user_prs(world.snapshot())
        op0 = world.shim.nops()
        world.shim.set(trace_refs=True)
        rec = world.run(kind, arg, record=False, **kw)
        world.shim.clear()
        ops = []
        for (op, k, what) in rec['ops']:
            entry = {'rel': op - op0, 'kind': k, 'what': what[:200]}
            if k == 'push':
                ch = world.shim.push_changes(op)
                entry['changes'] = sorted(ch) if ch is not None else None
            ops.append(entry)
        out = []
        observe(world, prs0, 'reference', out)
        res = {'status': rec['status'], 'ops': ops,
               'summary': rec_summary(rec), 'violations': out}
        world.drain()
        if drain:
            drain_to_completion(world, prs0, 'reference', out)
            res['trees'] = dest_trees(world)
            res['open_prs'] = [p['id'] for p in user_prs(world.snapshot())
                               if p['state'] == 'OPEN']
        return res
    return fork_try(world, child)


def faulty_child(world, event, fail_from_rel=None, reject=None):
    """Runs the job with one fault, observes, recovers on a fresh instance,
    drains, and reports."""
    kind, arg, kw = event

    def child():
        prs0 = user_prs(world.snapshot())
        op0 = world.shim.nops()
        out = []
        if fail_from_rel is not None:
            world.shim.set(fail_from=op0 + fail_from_rel)
        if reject:
            world.reject_refs([reject])
        rec = world.run(kind, arg, record=False, **kw)
        reached = True
        if fail_from_rel is not None:
            reached = world.shim.nops() >= op0 + fail_from_rel
        if reject:
            reached = os.path.exists(os.path.join(world.bare, 'hooks',
                                                  'rejected.log'))
        world.shim.clear()
        world.reject_refs(None)
        # jobs the interrupted job left pending die with the crashed instance
        observe(world, prs0, 'interrupted:%s' % rec['status'], out)
        res = {'fault_status': rec['status'], 'reached': reached,
               'fault_summary': rec_summary(rec)}
        # -- recovery: fresh instance, same HOME, event re-delivered ----------
        world.berte = world.fresh_berte()
        rec2 = world.run(kind, arg, record=False, **kw)
        world.drain()
        observe(world, prs0, 'redelivered:%s' % rec2['status'], out)
        res['recovery_status'] = rec2['status']
        if rec2['status'] in RESET_STATUSES:
            r3 = queue_reset(world, prs0, out)
            rec4 = world.run(kind, arg, record=False, **kw)
            world.drain()
            observe(world, prs0, 'redelivered-again:%s' % rec4['status'],
                    out)
            res['recovery_status'] += '+%s+%s' % (r3, rec4['status'])
        drain_to_completion(world, prs0, 'recovery', out)
        res['trees'] = dest_trees(world)
        res['open_prs'] = [p['id'] for p in user_prs(world.snapshot())
                           if p['state'] == 'OPEN']
        res['violations'] = out
        return res
    return fork_try(world, child)


def explore_c02(world, event, acc, label, max_children=40):
    if os.environ.get('VERIF_TIER_HINT') == 'quick':
        max_children = 26
    """reference + every crash boundary + every rejected ref of one job."""
    ref = reference_child(world, event)
    if 'inconclusive' in ref:
        acc.count('c02_reference_inconclusive')
        acc.notes.append('reference child: %s' % ref['inconclusive'][:300])
        return
    acc.count('c02_explored_jobs')
    acc.seen('c02_explored_job_kinds', '%s:%s:%s' % (label, event[0],
                                                     ref['status']))
    for v in ref['violations']:
        report(world, event, acc, label, 'no-fault', v, ref)
    nops = len(ref['ops'])
    placements = [('crash', k, None) for k in range(1, nops + 1)]
    for o in ref['ops']:
        if o['kind'] == 'push' and o.get('changes'):
            for r in o['changes']:
                placements.append(('reject', o['rel'], r))
    if len(placements) > max_children:
        acc.count('c02_placements_skipped', len(placements) - max_children)
        placements = placements[:max_children]
    for (mode, k, refname) in placements:
        acc.evals += 1
        if mode == 'crash':
            res = faulty_child(world, event, fail_from_rel=k)
            opkind = ref['ops'][k - 1]['kind']
            what = ref['ops'][k - 1]['what']
            key = '%s|crash-before|%s|%s' % (
                label, opkind, what.split()[0:3] if opkind == 'push'
                else what)
        else:
            res = faulty_child(world, event, reject=refname)
            key = '%s|reject|%s' % (label, ref_kind(refname))
        if 'inconclusive' in res:
            acc.count('c02_children_inconclusive')
            acc.notes.append('child %s %s: %s' % (mode, k,
                                                  res['inconclusive'][:200]))
            continue
        if not res['reached']:
            acc.count('c02_placements_not_reached')
            continue
        acc.count('c02_placements_reached')
        acc.count('c02_%s_placements' % mode)
        acc.nontrivial(key)
        acc.seen('c02_fault_outcomes', '%s->%s' % (res['fault_status'],
                                                   res['recovery_status']))
        plc = {'mode': mode, 'op': k, 'ref': refname,
               'ops_of_reference_run': ref['ops']}
        for v in res['violations']:
            report(world, event, acc, label, plc, v, res)
        if res['trees'] != ref['trees']:
            diff = {n: [ref['trees'].get(n), res['trees'].get(n)]
                    for n in set(ref['trees']) | set(res['trees'])
                    if ref['trees'].get(n) != res['trees'].get(n)}
            report(world, event, acc, label, plc,
                   {'kind': 'recovered-content-differs', 'when': 'end',
                    'detail': {'trees': diff,
                               'open_prs_reference': ref['open_prs'],
                               'open_prs_recovered': res['open_prs']}}, res)
        elif len(acc.samples) < 5:
            acc.sample({'config': world.config(), 'explored': label,
                        'event': list(event), 'placement': {
                            'mode': mode, 'op': k, 'ref': refname},
                        'reference_ops': ref['ops'],
                        'fault_status': res['fault_status'],
                        'recovery': res['recovery_status'],
                        'trees_equal_reference': True})


def ref_kind(refname):
    n = refname.replace('refs/heads/', '')
    if n.startswith('q/w/'):
        return 'q/w'
    if n.startswith('q/'):
        return 'q'
    if n.startswith('w/'):
        return 'w'
    p = oracle.parse_dest(n)
    return p[0] if p else 'other'


def report(world, event, acc, label, placement, v, res):
    plc = placement if isinstance(placement, str) else \
        '%s@%s%s' % (placement['mode'], placement['op'],
                     ':' + ref_kind(placement['ref'])
                     if placement.get('ref') else '')
    mech = '%s-after-%s' % (v['kind'], plc.split('@')[0])
    acc.violation(
        mech, '%s [%s %s] %s at %s: %s' % (
            label, event[0], event[1], v['kind'], v['when'],
            str(v['detail'])[:300]),
        {'config': world.config(), 'history': world.history,
         'event': list(event), 'placement': placement, 'violation': v,
         'statuses': {k: res.get(k) for k in ('fault_status',
                                              'recovery_status', 'status')}})


# ---------------------------------------------------------------------------
# C08: one concurrent third-party action placed right before a push
THIRD_ACTIONS = ('create-feature-branch', 'create-user-branch',
                 'create-unclassified-branch', 'push-to-source',
                 'amend-source', 'rewind-source')


def prepare_third_party(world, action, src):
    """Prepare, in a separate clone, the commit the third party will push, and
    the script the shim runs.  Returns (script path, {ref: intended sha},
    description) or None when the action does not apply."""
    third = os.path.join(world.dir, 'third')
    if not os.path.isdir(third):
        world.git('clone', '-q', world.bare, third, cwd=world.dir)
    world.git('fetch', '-q', '--prune', 'origin', cwd=third)
    heads = world.refs()[0]
    base = src if src in heads else sorted(
        n for n in heads if oracle.is_dest(n))[0]
    world.git('checkout', '-q', '--detach', 'origin/' + base, cwd=third)
    if action.startswith('create-'):
        name = {'create-feature-branch': 'feature/TEST-77-newcomer',
                'create-user-branch': 'user/somebody/wip',
                'create-unclassified-branch': 'sandbox'}[action]
        world._write({'third_%s.txt' % action: 'x\n'}, cwd=third)
        world.git('add', '-A', cwd=third)
        world.git('commit', '-q', '-m', action, cwd=third, user='peer2')
        sha = world.git('rev-parse', 'HEAD', cwd=third).stdout.strip()
        refspec, expect = '%s:refs/heads/%s' % (sha, name), {name: sha}
    else:
        if src not in heads:
            return None
        if action == 'push-to-source':
            world._write({'third_more.txt': 'x\n'}, cwd=third)
            world.git('add', '-A', cwd=third)
            world.git('commit', '-q', '-m', 'more work', cwd=third,
                      user='author')
            sha = world.git('rev-parse', 'HEAD', cwd=third).stdout.strip()
            refspec = '%s:refs/heads/%s' % (sha, src)
        elif action == 'amend-source':
            world.git('commit', '-q', '--amend', '-m', 'amended by author',
                      cwd=third, user='author')
            sha = world.git('rev-parse', 'HEAD', cwd=third).stdout.strip()
            refspec = '+%s:refs/heads/%s' % (sha, src)
        else:
            sha = world.git('rev-parse', 'HEAD~1', cwd=third).stdout.strip()
            refspec = '+%s:refs/heads/%s' % (sha, src)
        expect = {src: sha}
    script = os.path.join(world.dir, 'third.sh')
    with open(script, 'w') as f:
        f.write('"$VF_REAL_GIT" -C "%s" push -q origin "%s"\n'
                % (third, refspec))
    return script, expect, {'action': action, 'refspec': refspec}


def third_party_child(world, event, rel_op, action, src, refuse_once=False):
    """refuse_once: the push before which the third party acts is itself
    refused once (the retry, if Bert-E makes one, goes through)"""
    kind, arg, kw = event

    def child():
        from vf.common.acc import Acc
        prep = prepare_third_party(world, action, src)
        if prep is None:
            return {'skipped': True}
        script, expect, desc = prep
        op0 = world.shim.nops()
        if refuse_once:
            world.shim.set(before_op=op0 + rel_op, before_script=script,
                           fail_from=op0 + rel_op, fail_until=op0 + rel_op)
        else:
            world.shim.set(before_op=op0 + rel_op, before_script=script)
        rec = world.run(kind, arg, record=False, **kw)
        world.shim.clear()
        acc = Acc()
        # did the third-party push happen (and succeed)?
        ran = all(world.tip_history.get(n) and
                  sha in world.tip_history.get(n, [])
                  for n, sha in expect.items())
        happened = world.shim.nops() >= op0 + rel_op
        log = ''
        try:
            with open(os.path.join(world.shim.dir, 'before.log')) as f:
                log = f.read()[-300:]
        except OSError:
            pass
        ctx = {'action': action, 'third_party': desc}
        monitors.c08_ownership(world, rec, acc, ctx,
                               expected_foreign=expect if happened else {})
        return {'status': rec['status'], 'happened': happened,
                'third_log': log,
                'violations': acc.violations, 'desc': desc,
                'summary': rec_summary(rec)}
    return fork_try(world, child)


def explore_c08(world, event, acc, label, src, max_children=40):
    ref = reference_child(world, event, drain=False)
    if 'inconclusive' in ref:
        acc.count('c08_reference_inconclusive')
        acc.notes.append('reference child: %s' % ref['inconclusive'][:300])
        return
    pushes = [o for o in ref['ops'] if o['kind'] == 'push']
    acc.count('c08_explored_jobs')
    acc.seen('c08_explored_job_kinds', '%s:%s:%s' % (label, event[0],
                                                     ref['status']))
    n = nref = 0
    placements = []
    for o in pushes:
        form = 'all-prune' if '--all' in o['what'] else \
            'delete' if ' :' in o['what'] else 'named'
        for action in THIRD_ACTIONS:
            placements.append((o, form, action, False))
            # the same placement with that push refused once
            placements.append((o, form, action, True))
    for o, form, action, refused in placements:
        if True:
            if refused:
                if nref >= max_children // 2:
                    continue
                nref += 1
            elif n >= max_children:
                acc.count('c08_placements_skipped')
                continue
            else:
                n += 1
            res = third_party_child(world, event, o['rel'], action, src,
                                    refuse_once=refused)
            acc.evals += 1
            if refused:
                acc.count('c08_placements_with_the_push_refused_once')
            if 'inconclusive' in res:
                acc.count('c08_children_inconclusive')
                acc.notes.append('c08 child: %s' % res['inconclusive'][:200])
                continue
            if res.get('skipped') or not res['happened']:
                acc.count('c08_placements_not_reached')
                continue
            acc.count('c08_placements_reached')
            acc.nontrivial('%s|%s|%s|%s' % (
                label, event[0], form,
                action + ('+refused-once' if refused else '')))
            acc.seen('c08_outcomes_with_third_party',
                     '%s/%s->%s' % (form, action, res['status']))
            for v in res['violations']:
                v['witness']['event'] = list(event)
                v['witness']['placement'] = {'before_push': o['rel'],
                                             'push': o['what'],
                                             'action': action,
                                             'push_refused_once': refused}
                acc.violation(v['mechanism'], '%s before push %d (%s): %s'
                              % (action, o['rel'], o['what'][:60],
                                 v['desc']), v['witness'])
            if not res['violations'] and len(acc.samples) < 5:
                acc.sample({'config': world.config(), 'explored': label,
                            'event': list(event), 'push': o['what'],
                            'third_party': res['desc'],
                            'job_status': res['status'],
                            'foreign_ref_intact': True})
