"""System-level companions of the function-level gate checks C04 and C11:
sampled cells replayed on real repositories through put_job/process_task, so
that a gate that is correct as a function but no longer called (or called
with other data) by the workflow is noticed."""
import random

from vf.world import oracle, runner
from vf.world.world import World, AUTHOR, PEER1, PEER2, LEAD, ROBOT, \
    rec_summary

PROCEEDS = ('Queued', 'SuccessMessage', 'Merged')


def green_all(world, src):
    for n in world.refs()[0]:
        if n == src or n.startswith('q/') or \
                (n.startswith('w/') and n.endswith('/' + src)):
            world.do('set_status', ref='tip:' + n, state='SUCCESSFUL')


# ---------------------------------------------------------------------------
# C04
def c04_cell(acc, rng, idx):
    from vf.checks import c04
    peers = rng.choice([0, 1, 1, 2])
    author_leader = rng.random() < 0.3
    leaders = rng.choice([0, 1] if not author_leader else [0, 1, 2])
    leaders = min(leaders, peers)
    need_author = rng.random() < 0.5
    cfg = (peers, leaders, need_author, author_leader)
    states = {u: rng.choice(c04.STATES) for u in (AUTHOR, PEER1, PEER2, LEAD)}
    states[ROBOT] = 'participant'          # the robot always comments
    mask = rng.randrange(32)
    sources = [rng.randrange(3) for _ in range(3)] + [0, 0]
    opts, comments, author_bypass, cmdline = set(), [], [], []
    for bit, name in enumerate(c04.BYPASSES):
        if mask >> bit & 1:
            opts.add(name)
            src = c04.SOURCES[sources[bit]]
            if src == 'comment':
                comments.append((LEAD, '@%s %s' % (ROBOT, name)))
            elif src == 'per_author':
                author_bypass.append(name)
            else:
                cmdline.append(name)
    if mask >> 3 & 1:
        opts.add('approve')
        comments.append((AUTHOR, '/approve'))
    if mask >> 4 & 1:
        opts.add('unanimity')
        comments.append((PEER1, '@%s unanimity' % ROBOT))
    # a comment makes its writer a participant on the host
    for (u, _) in comments:
        if states[u] == 'absent':
            states[u] = 'participant'
    settings = {'required_peer_approvals': peers,
                'required_leader_approvals': leaders,
                'need_author_approval': need_author,
                'project_leaders': [LEAD, AUTHOR] if author_leader
                else [LEAD]}
    settings['pr_author_options'] = {PEER2: list(c04.BYPASSES),
                                     AUTHOR: author_bypass}
    world = World(layout=rng.choice(['d1', 'd2']),
                  queue_mode=rng.choice(['queue', 'noqueue']),
                  seed=rng.getrandbits(30), settings=settings,
                  cmd_line_options=cmdline)
    try:
        w = world
        src = 'bugfix/TEST-1-gate'
        pid = w.do('open_pr', src=src, dst=w.layout['chain'][0])
        for u in (AUTHOR, PEER1, PEER2, LEAD):
            st = states[u]
            if st == 'participant':
                w.do('comment', pr=pid, user=u, text='a remark')
            if st.startswith('approved'):
                w.do('approve', pr=pid, user=u)
            if st == 'changes':
                w.do('request_changes', pr=pid, user=u)
            if st == 'approved+changes':
                # the mock host clears the request on approval: ask again
                w.do('request_changes', pr=pid, user=u)
        for (u, t) in comments:
            w.do('comment', pr=pid, user=u, text=t)
        # the mock host cannot hold "approved and changes requested" at once
        real = {}
        prc = w.repos[LEAD].get_pull_request(pid)
        approvals = set(prc.get_approvals())
        requests = set(prc.get_change_requests())
        parts = set(prc.get_participants())
        for u in (AUTHOR, PEER1, PEER2, LEAD, ROBOT):
            if u in approvals and u in requests:
                real[u] = 'approved+changes'
            elif u in approvals:
                real[u] = 'approved'
            elif u in requests:
                real[u] = 'changes'
            elif u in parts:
                real[u] = 'participant'
            else:
                real[u] = 'absent'
        rec = w.run('pr', pid)
        # after the first evaluation the robot is a participant
        real[ROBOT] = 'participant'
        green_all(w, src)
        rec = w.run('pr', pid)
        acc.evals += 1
        acc.count('c04w_cells')
        order = (AUTHOR, PEER1, PEER2, LEAD, ROBOT)
        exp, clauses, active = c04.oracle(cfg, tuple(real[u] for u in order),
                                          opts)
        st = rec['status']
        acc.seen('c04w_outcomes', '%s:%s' % ('pass' if exp else 'refuse', st))
        acc.nontrivial('w|%s|%s|%s' % (cfg, sorted(opts), exp))
        wit = {'world': True, 'idx': idx, 'config': w.config(),
               'history': w.history, 'job': rec_summary(rec),
               'cfg': list(cfg), 'users': real, 'options': sorted(opts)}
        if exp and st == 'ApprovalRequired':
            acc.violation('system-level:refuses-although-predicate-true',
                          'cfg %s users %s options %s -> %s' % (
                              cfg, real, sorted(opts), st), wit)
        elif not exp and st != 'ApprovalRequired':
            failing = [n for n, ok in zip(
                ('author', 'peers', 'leaders', 'unanimity',
                 'change_requests'), clauses) if not ok]
            acc.violation('system-level:goes-on-although-' +
                          '+'.join(failing),
                          'cfg %s users %s options %s -> %s (failing '
                          'clauses %s)' % (cfg, real, sorted(opts), st,
                                           failing), wit)
        else:
            acc.count('c04w_agree_pass' if exp else 'c04w_agree_refuse')
            if len(acc.samples) < 8 and idx % 5 == 0:
                acc.sample({'system_level': True, 'cfg': list(cfg),
                            'users': real, 'options': sorted(opts),
                            'status': st})
    finally:
        world.close()


def c04_run(spec, acc, n):
    runner.quiet()
    for i in range(n):
        idx = spec['shard'] + i * spec['nshards']
        rng = random.Random('c04w-%s-%s' % (spec['seed'], idx))
        try:
            c04_cell(acc, rng, idx)
        except Exception as err:
            acc.count('harness_errors')
            acc.notes.append('c04w %d: %s: %s' % (idx, type(err).__name__,
                                                  str(err)[:200]))


# ---------------------------------------------------------------------------
# C11
class FakeJira:
    """stands for the Jira server (installed as bert_e.lib.jira.JiraIssue)"""
    issues = {}

    def __init__(self, account_url, issue_id, email, token):
        from types import SimpleNamespace
        from jira.exceptions import JIRAError
        if issue_id not in FakeJira.issues:
            raise JIRAError(status_code=404, text='not found')
        typ, versions = FakeJira.issues[issue_id]
        self.key = issue_id
        self.fields = SimpleNamespace(
            issuetype=SimpleNamespace(name=typ),
            fixVersions=[SimpleNamespace(name=v) for v in versions])


# (layout, destination) -> expected fix versions, written by hand from C09
EXPECTED = {
    ('d2', 'development/1.0'): ['1.0.0', '2.0.0'],
    ('d2', 'development/2.0'): ['2.0.0'],
    ('s1d2', 'stabilization/1.0.0'): ['1.0.0', '2.0.0'],
    ('s1d2', 'development/1.0'): ['1.0.1', '2.0.0'],
    ('d1M1d2', 'development/1.0'): ['1.0.0', '1.1.0', '2.0.0'],
    ('h1d2', 'hotfix/0.9.0'): ['0.9.0.1'],
}


def c11_cell(acc, rng, idx):
    import bert_e.lib.jira as jira_api
    jira_api.JiraIssue = FakeJira
    layout, dst = rng.choice(sorted(EXPECTED))
    want = EXPECTED[(layout, dst)]
    case = rng.choice(['ok', 'ok', 'no-ticket', 'absent', 'wrong-project',
                       'bad-type', 'bad-versions', 'missing-version',
                       'extra-version', 'suffixed-extra', 'bypass-admin',
                       'bypass-prefix', 'lower-case-key'])
    settings = {'jira_account_url': 'https://jira.invalid',
                'jira_email': 'robot@x.invalid', 'jira_keys': ['TEST'],
                'prefixes': {'Bug': 'bugfix', 'Story': 'feature'}}
    if case == 'bypass-prefix':
        settings['bypass_prefixes'] = ['bugfix']
    world = World(layout=layout, queue_mode=rng.choice(['queue', 'noqueue']),
                  seed=rng.getrandbits(30), settings=settings)
    try:
        w = world
        key = 'TEST-%d' % rng.randrange(1, 900)
        src = 'bugfix/%s-fix' % key
        versions = list(want)
        typ = 'Bug'
        expect = None                 # None = must go on past the gate
        if case == 'no-ticket':
            src = 'bugfix/no_ticket_here'
            expect = 'MissingJiraId'
        elif case == 'absent':
            expect = 'JiraIssueNotFound'
        elif case == 'wrong-project':
            key = 'OTHER-12'
            src = 'bugfix/%s-fix' % key
            expect = 'IncorrectJiraProject'
        elif case == 'bad-type':
            typ = 'Epic'
            expect = 'IssueTypeNotSupported'
        elif case == 'bad-versions':
            versions = ['7.7.7']
            expect = 'IncorrectFixVersion'
        elif case == 'missing-version':
            versions = versions[:-1]
            expect = 'IncorrectFixVersion'
        elif case == 'extra-version' and not dst.startswith('hotfix/'):
            versions = versions + ['9.9.9']
            expect = 'IncorrectFixVersion'
        elif case == 'suffixed-extra':
            versions = versions + ['1.0.0_hf3', '5.1.9.2']
        elif case == 'lower-case-key':
            src = 'bugfix/%s-fix' % key.lower()
        elif case == 'bypass-admin':
            versions = ['7.7.7']
        elif case == 'bypass-prefix':
            versions = []
            typ = 'Epic'
        FakeJira.issues = {}
        if case != 'absent':
            FakeJira.issues[key] = (typ, versions)
        pid = w.do('open_pr', src=src, dst=dst)
        if case == 'bypass-admin':
            w.do('comment', pr=pid, user=LEAD,
                 text='@robot bypass_jira_check')
        rec = w.run('pr', pid)
        acc.evals += 1
        acc.count('c11w_cells')
        st = rec['status']
        a = rec['after']
        mine = [n for n in a.refs if n.startswith('w/') and
                n.endswith('/' + src)]
        kids = [p for p in a.prs if p['author'] == ROBOT]
        acc.seen('c11w_outcomes', '%s:%s' % (case, st))
        acc.nontrivial('w|%s|%s|%s' % (layout, dst, case))
        wit = {'world': True, 'idx': idx, 'config': w.config(),
               'history': w.history, 'case': case, 'issue': [key, typ,
                                                             versions],
               'job': rec_summary(rec)}
        if expect:
            if st != expect:
                acc.violation(
                    'system-level:%s-instead-of-%s' % (st, expect),
                    'case %s (%s -> %s, issue %s %s %s): %s, expected %s'
                    % (case, src, dst, key, typ, versions, st, expect), wit)
            if mine or kids:
                acc.violation(
                    'system-level:integration-data-although-ticket-gate-'
                    'failed', 'case %s: %s but %s / %d integration PRs exist'
                    % (case, st, mine, len(kids)), wit)
            acc.count('c11w_refusals_checked')
        else:
            tgts = oracle.targets(list(a.refs), dst)
            blocked = st in ('MissingJiraId', 'JiraIssueNotFound',
                             'IncorrectJiraProject', 'IssueTypeNotSupported',
                             'IncorrectFixVersion')
            if blocked or (len(tgts) > 1 and not mine):
                acc.violation(
                    'system-level:refused-although-ticket-fits',
                    'case %s (%s -> %s, issue %s %s %s): %s, w/ %s'
                    % (case, src, dst, key, typ, versions, st, mine), wit)
            acc.count('c11w_admissions_checked')
            # the ticket stops fitting AFTER the integration branches exist:
            # every later event (PR event, build report on the source tip or
            # on a w/ tip) must be refused again and change nothing
            if case in ('ok', 'suffixed-extra', 'lower-case-key') and \
                    not blocked and FakeJira.issues.get(key):
                how = rng.choice(['retype', 'versions'])
                if how == 'retype':
                    FakeJira.issues[key] = ('Epic', versions)
                    expect2 = 'IssueTypeNotSupported'
                else:
                    FakeJira.issues[key] = (typ, ['7.7.7'])
                    expect2 = 'IncorrectFixVersion'
                events = [('pr', pid), ('commit', 'tip:' + src)] + \
                    [('commit', 'tip:' + n) for n in sorted(mine)]
                for ev in events:
                    green_all(w, src)
                    before = w.refs()[0]
                    rec2 = w.run(*ev)
                    acc.evals += 1
                    acc.count('c11w_later_events_checked')
                    acc.nontrivial('w|later|%s|%s|%s' % (how, ev[0],
                                                         'w' if 'tip:w/' in
                                                         str(ev[1]) else 'x'))
                    after = w.refs()[0]
                    moved = sorted(n for n in set(before) | set(after)
                                   if before.get(n) != after.get(n))
                    if rec2['status'] != expect2 or moved:
                        acc.violation(
                            'system-level:later-event-passes-ticket-gate',
                            'ticket %s changed (%s) after integration '
                            'branches existed; %s(%s) -> %s, refs changed '
                            '%s; expected %s and nothing changed' % (
                                key, how, ev[0], ev[1], rec2['status'],
                                moved, expect2),
                            dict(wit, later=[how, list(ev)]))
                        break
            if len(acc.samples) < 8 and idx % 7 == 0:
                acc.sample({'system_level': True, 'case': case,
                            'source': src, 'destination': dst,
                            'fix_versions': versions, 'status': st})
    finally:
        world.close()


def c11_run(spec, acc, n):
    runner.quiet()
    for i in range(n):
        idx = spec['shard'] + i * spec['nshards']
        rng = random.Random('c11w-%s-%s' % (spec['seed'], idx))
        try:
            c11_cell(acc, rng, idx)
        except Exception as err:
            acc.count('harness_errors')
            acc.notes.append('c11w %d: %s: %s' % (idx, type(err).__name__,
                                                  str(err)[:200]))
