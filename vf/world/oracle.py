"""Harness-side knowledge about destination branches, written from the
property statements (C01, C09), sharing nothing with bert_e."""


def parse_dest(name):
    """('dev', x, y|None) / ('stab', x, y, z) / ('hotfix', x, y, z) / None"""
    if '/' not in name:
        return None
    prefix, _, ver = name.partition('/')
    parts = ver.split('.')
    if not all(p.isdigit() and p for p in parts):
        return None
    nums = [int(p) for p in parts]
    if prefix == 'development' and len(nums) == 2:
        return ('dev', nums[0], nums[1])
    if prefix == 'development' and len(nums) == 1:
        return ('dev', nums[0], None)
    if prefix == 'stabilization' and len(nums) == 3:
        return ('stab',) + tuple(nums)
    if prefix == 'hotfix' and len(nums) == 3:
        return ('hotfix',) + tuple(nums)
    return None


def is_dest(name):
    return parse_dest(name) is not None


def chain(names):
    """Destination branches in forward-port order: development/x.y by (x, y),
    development/x after every development/x.*, stabilization/x.y.z immediately
    before development/x.y.  Hotfix branches are outside the chain."""
    devs, stabs = [], []
    for n in names:
        p = parse_dest(n)
        if not p:
            continue
        if p[0] == 'dev':
            devs.append((p[1], float('inf') if p[2] is None else p[2], n))
        elif p[0] == 'stab':
            stabs.append((p[1], p[2], p[3], n))
    out = []
    placed = set()
    for major, minor, n in sorted(devs):
        for s in sorted(stabs):
            if (s[0], s[1]) == (major, minor):
                out.append(s[3])
                placed.add(s[3])
        out.append(n)
    # stabilization branches without their development branch: still order
    # them by version at the place their development branch would have
    rest = [s for s in sorted(stabs) if s[3] not in placed]
    for s in rest:
        idx = 0
        for i, n in enumerate(out):
            p = parse_dest(n)
            key = (p[1], float('inf') if p[2] is None else p[2])
            if key < (s[0], s[1]):
                idx = i + 1
        out.insert(idx, s[3])
    return out


def targets(names, dst):
    """Branches a pull request on `dst` is merged into."""
    p = parse_dest(dst)
    if p is None:
        return []
    if p[0] == 'hotfix':
        return [dst]
    order = chain(names)
    if dst not in order:
        return []
    out = [dst]
    for n in order[order.index(dst) + 1:]:
        q = parse_dest(n)
        if q[0] == 'dev':
            out.append(n)
    return out


def version_of(name):
    return name.partition('/')[2]


def wname(version, src):
    return 'w/%s/%s' % (version, src)


def robot_owned(name):
    return name.startswith(('w/', 'q/', 'tmp/'))
