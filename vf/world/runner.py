"""Shared driver for the history-based world checks."""
import logging
import random
import time
import traceback

from vf.world.gen import Gen
from vf.world.world import World


def quiet():
    logging.disable(logging.CRITICAL)


def run_histories(spec, acc, configs, prof, monitors, n_hist, jobs,
                  openers=None, soft_cap_s=None, directed=None):
    """n_hist histories of about `jobs` jobs each.  `configs` are World
    keyword dicts, spread over shards round-robin.  `openers` is an optional
    list of functions (gen) -> None run before the random walk (directed
    prefixes), chosen at random (None entries = no opener).  `directed` is
    an optional list of (config, opener) pairs that are ALL run (spread over
    the shards) before the sampled histories: openers that need a particular
    mode to reach the state they are written for."""
    quiet()
    shard, nshards = spec['shard'], spec['nshards']
    master = random.Random('%s-%s-%s' % (spec['seed'], shard, spec['tier']))
    t0 = time.time()
    mine = [d for j, d in enumerate(directed or []) if j % nshards == shard]
    for i in range(-len(mine), n_hist):
        if soft_cap_s and time.time() - t0 > soft_cap_s:
            acc.notes.append('shard %d stopped after %d/%d histories (soft '
                             'time cap %ds)' % (shard, i, n_hist, soft_cap_s))
            acc.count('histories_skipped_by_time_cap', n_hist - i)
            break
        k = shard + i * nshards
        forced = mine[i + len(mine)] if i < 0 else None
        cfg = dict(forced[0] if forced else configs[k % len(configs)])
        hseed = master.getrandbits(32)
        # integration pull requests (the default of a real deployment) in
        # about half of the sampled histories that do not say otherwise
        st = dict(cfg.get('settings') or {})
        if not forced and 'always_create_integration_pull_requests' not in st \
                and hseed % 5 < 2:
            st['always_create_integration_pull_requests'] = True
            cfg['settings'] = st
            acc.count('histories_with_integration_pull_requests')
        world = None
        try:
            world = World(seed=hseed, **cfg)
            ctx = {}

            def on_job(rec, world=world, ctx=ctx):
                acc.count('jobs')
                acc.seen('job_outcomes', '%s:%s' % (rec['kind'],
                                                     rec['status']))
                if not known_status(rec['status']):
                    acc.count('jobs_ending_in_a_python_exception')
                    acc.seen('python_exceptions', '%s:%s' % (
                        rec['kind'], rec['status']))
                for m in monitors:
                    m(world, rec, acc, ctx)
            g = Gen(world, random.Random(hseed), prof, on_job)
            if forced:
                forced[1](g)
                acc.count('directed_histories')
            elif openers:
                op = openers[master.randrange(len(openers))]
                if op:
                    op(g)
            g.walk(jobs)
            acc.count('histories')
        except Exception as err:
            acc.count('harness_errors')
            if isinstance(err, (TypeError, NameError, AttributeError,
                                KeyError, IndexError)):
                # a bug of the generator, not bad luck: the histories it was
                # meant to produce were not produced
                acc.count('harness_programming_errors')
            acc.notes.append('harness error in history %d of shard %d (%s): '
                             '%s: %s | %s' % (
                                 i, shard, cfg, type(err).__name__,
                                 str(err)[:200],
                                 traceback.format_exc()[-600:]))
        finally:
            if world is not None:
                world.close()


def replay_world(witness, acc, monitors):
    quiet()
    cfg = witness['config']
    world = World(layout=cfg['layout'], queue_mode=cfg['queue_mode'],
                  seed=cfg.get('seed', 0), settings=cfg.get('settings'),
                  cmd_line_options=cfg.get('cmd_line_options', ()))
    ctx = {}
    try:
        for step in witness['history']:
            out = world.apply(step)
            if 'run' in step:
                recs = [out] + world.drain()
                for rec in recs:
                    for m in monitors:
                        m(world, rec, acc, ctx)
    finally:
        world.close()


_known = [None]


def known_status(status):
    """is this job status one of Bert-E's own outcome classes?"""
    if _known[0] is None:
        import bert_e.exceptions as ex
        _known[0] = {n for n in dir(ex) if isinstance(getattr(ex, n), type)}
        _known[0] |= {'', 'NOJOB'}
    return status in _known[0]


def harness_health(acc, max_error_ratio=0.2):
    crashed = acc.counters.get('jobs_ending_in_a_python_exception', 0)
    jobs = acc.counters.get('jobs', 0)
    if jobs and crashed > 0.15 * jobs:
        acc.inconc('%d of %d jobs of the fault-free histories ended in a '
                   'Python exception (%s): the workload does not exercise '
                   'the property' % (crashed, jobs, sorted(
                       acc.sets.get('python_exceptions', []))[:6]))

    bugs = acc.counters.get('harness_programming_errors', 0)
    if bugs:
        acc.inconc('%d histories ended in a programming error of the '
                   'harness (see notes): part of the workload was not '
                   'produced' % bugs)
    errs = acc.counters.get('harness_errors', 0)
    hist = acc.counters.get('histories', 0)
    if errs and errs > max_error_ratio * max(1, hist + errs):
        acc.inconc('%d of %d histories ended in a harness error'
                   % (errs, hist + errs))
