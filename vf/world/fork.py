"""Fork snapshots (DESIGN.md 2.3): try a continuation of the current world in a
child process and roll the on-disk state back afterwards.

The parent copies the world's scratch directory, forks, lets the child run the
experiment on the *original* directory (paths are embedded in live objects),
collects a JSON result through a pipe, and restores the directory from the
copy.  In-memory state is duplicated by fork.  A watchdog timeout is reported
as {'inconclusive': ...}, never as a violation.
"""
import json
import os
import select
import shutil
import signal
import time
import traceback


def fork_try(world, fn, timeout=240):
    backup = world.dir + '.bak'
    shutil.rmtree(backup, ignore_errors=True)
    shutil.copytree(world.dir, backup, symlinks=True)
    r, w = os.pipe()
    pid = os.fork()
    if pid == 0:
        code = 0
        try:
            os.close(r)
            try:
                res = fn()
            except BaseException as err:  # report, never propagate
                res = {'inconclusive': 'child raised %s: %s' % (
                    type(err).__name__, str(err)[:300]),
                    'traceback': traceback.format_exc()[-2000:]}
            data = json.dumps(res, default=str).encode()
            off = 0
            while off < len(data):
                off += os.write(w, data[off:off + 65536])
        except BaseException:
            code = 3
        finally:
            os._exit(code)
    os.close(w)
    chunks, deadline, timed_out = [], time.time() + timeout, False
    while True:
        left = deadline - time.time()
        if left <= 0:
            timed_out = True
            break
        ready, _, _ = select.select([r], [], [], min(left, 1.0))
        if ready:
            b = os.read(r, 65536)
            if not b:
                break
            chunks.append(b)
    os.close(r)
    if timed_out:
        try:
            os.kill(pid, signal.SIGKILL)
        except OSError:
            pass
    os.waitpid(pid, 0)
    # roll back the on-disk state
    shutil.rmtree(world.dir, ignore_errors=True)
    os.rename(backup, world.dir)
    if timed_out:
        return {'inconclusive': 'child stopped by the %ds watchdog' % timeout}
    try:
        return json.loads(b''.join(chunks).decode())
    except ValueError:
        return {'inconclusive': 'child returned no result'}
