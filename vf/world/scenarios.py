"""Directed scenarios: build a world in a given situation and return the
event whose handling is to be explored (C02, C08, C16)."""
from vf.world.world import World, AUTHOR, LEAD


def green(world, pr_src):
    for n in world.refs()[0]:
        if n == pr_src or (n.startswith('w/') and n.endswith('/' + pr_src)):
            world.do('set_status', ref='tip:' + n, state='SUCCESSFUL')


def green_queue(world):
    for n in world.refs()[0]:
        if n.startswith('q/'):
            world.do('set_status', ref='tip:' + n, state='SUCCESSFUL')


def open_pr(world, n, dst):
    src = 'bugfix/TEST-%d-s%d' % (n, n)
    pr = world.do('open_pr', src=src, dst=dst)
    return pr, src


def first_dest(world):
    return world.layout['chain'][0]


def to_queued(world, n, dst):
    pr, src = open_pr(world, n, dst)
    world.run('pr', pr)
    green(world, src)
    rec = world.run('pr', pr)
    return pr, src, rec


# each scenario: (world) -> (label, event) where event = (kind, arg, kw)
def s_first_eval(world):
    pr, src = open_pr(world, 1, first_dest(world))
    return 'first-evaluation', ('pr', pr, {})


def s_queue_entry(world):
    pr, src = open_pr(world, 1, first_dest(world))
    world.run('pr', pr)
    green(world, src)
    return 'queue-entry-or-direct-merge', ('pr', pr, {})


def s_queue_merge(world):
    pr, src, rec = to_queued(world, 1, first_dest(world))
    green_queue(world)
    q = sorted(n for n in world.refs()[0] if n.startswith('q/w/'))
    if not q:
        return 'after-direct-merge-noop', ('pr', pr, {})
    return 'queue-merge', ('commit', 'tip:' + q[-1], {})


def s_second_entry(world):
    pr1, src1, _ = to_queued(world, 1, first_dest(world))
    pr2, src2 = open_pr(world, 2, world.layout['chain'][-1])
    world.run('pr', pr2)
    green(world, src2)
    return 'second-pr-entry', ('pr', pr2, {})


def s_two_merge(world):
    pr1, src1, _ = to_queued(world, 1, first_dest(world))
    pr2, src2, _ = to_queued(world, 2, world.layout['chain'][-1])
    green_queue(world)
    q = sorted(n for n in world.refs()[0] if n.startswith('q/w/'))
    if not q:
        return 'after-direct-merges-noop', ('pr', pr2, {})
    return 'queue-merge-two-prs', ('commit', 'tip:' + q[0], {})


def s_two_merge_narrow_first(world):
    """the pull request that entered the queue FIRST has the narrower target
    set (newest destination only); one queue evaluation merges both"""
    pr1, src1, _ = to_queued(world, 1, world.layout['chain'][-1])
    pr2, src2, _ = to_queued(world, 2, first_dest(world))
    green_queue(world)
    q = sorted(n for n in world.refs()[0] if n.startswith('q/w/'))
    if not q:
        return 'after-direct-merges-noop', ('pr', pr2, {})
    return 'queue-merge-two-prs-narrow-first', ('commit', 'tip:' + q[0], {})


def s_source_moved(world):
    pr, src = open_pr(world, 1, first_dest(world))
    world.run('pr', pr)
    world.do('push_commit', branch=src)
    return 'update-integration-branches', ('pr', pr, {})


def s_decline(world):
    pr, src = open_pr(world, 1, first_dest(world))
    world.run('pr', pr)
    world.do('decline', pr=pr)
    return 'decline-cleanup', ('pr', pr, {})


def s_reset(world):
    pr, src = open_pr(world, 1, first_dest(world))
    world.run('pr', pr)
    world.do('comment', pr=pr, user=AUTHOR, text='/reset')
    return 'reset-command', ('pr', pr, {})


def s_rebuild(world):
    pr1, src1, _ = to_queued(world, 1, first_dest(world))
    pr2, src2, _ = to_queued(world, 2, world.layout['chain'][-1])
    return 'rebuild-queues', ('rebuild_queues', None, {})


def s_delete_queues(world):
    pr1, src1, _ = to_queued(world, 1, first_dest(world))
    return 'delete-queues', ('delete_queues', None, {})


def s_force_merge(world):
    pr1, src1, _ = to_queued(world, 1, first_dest(world))
    return 'force-merge-queues', ('force_merge_queues', None, {})


def s_create_branch(world):
    pr1, src1, _ = to_queued(world, 1, first_dest(world))
    return 'create-branch-with-queue', ('create_branch', 'development/9.0',
                                        {})


def s_create_stab(world):
    pr1, src1 = open_pr(world, 1, world.layout['chain'][-1])
    world.run('pr', pr1)
    last = world.layout['chain'][-1].split('/')[1]
    return 'create-stabilization', ('create_branch',
                                    'stabilization/%s.0' % last, {})


def s_delete_branch(world):
    pr, src = open_pr(world, 1, world.layout['chain'][-1])
    world.run('pr', pr)
    return 'delete-branch', ('delete_branch', first_dest(world), {})


def s_delete_branch_with_queue(world):
    """queue branches exist (a PR is queued on the newest destination) when
    an untargeted older / hotfix branch is archived"""
    pr, src, rec = to_queued(world, 1, world.layout['chain'][-1])
    victims = world.layout.get('hotfix', []) or [first_dest(world)]
    return 'delete-branch-with-queue', ('delete_branch', victims[0], {})


def s_conflict(world):
    src = 'bugfix/TEST-1-c'
    pr = world.do('open_pr', src=src, dst=first_dest(world),
                  files={'shared.txt': 'line\nline\nmine\nline\nline\n'})
    other = world.layout['chain'][-1]
    world.do('push_commit', branch=other,
             files={'shared.txt': 'line\nline\ntheirs\nline\nline\n'},
             user=LEAD)
    return 'conflict', ('pr', pr, {})


def s_conflict_later(world):
    """the conflict shows up on the LAST integration branch: the earlier
    ones are pushed by the conflict handler"""
    other = world.layout['chain'][-1]
    world.do('push_commit', branch=other,
             files={'shared.txt': 'line\nline\ntheirs\nline\nline\n'},
             user=LEAD)
    src = 'bugfix/TEST-1-c'
    pr = world.do('open_pr', src=src, dst=first_dest(world),
                  files={'shared.txt': 'line\nline\nmine\nline\nline\n'})
    return 'conflict-on-later-target', ('pr', pr, {})


SCENARIOS = {
    'first_eval': s_first_eval, 'queue_entry': s_queue_entry,
    'queue_merge': s_queue_merge, 'second_entry': s_second_entry,
    'two_merge': s_two_merge, 'source_moved': s_source_moved,
    'two_merge_narrow_first': s_two_merge_narrow_first,
    'decline': s_decline, 'reset': s_reset, 'rebuild': s_rebuild,
    'delete_queues': s_delete_queues, 'force_merge': s_force_merge,
    'create_branch': s_create_branch, 'create_stab': s_create_stab,
    'delete_branch': s_delete_branch, 'conflict': s_conflict,
    'conflict_later': s_conflict_later,
    'delete_branch_with_queue': s_delete_branch_with_queue,
}


def build(name, **world_kw):
    world = World(**world_kw)
    label, event = SCENARIOS[name](world)
    return world, label, event
