"""C18 companion at system level: the robot names round-trip THROUGH THE
REPOSITORY.  Bert-E pushes w/<version>/<src> and q/w/<id>/<version>/<src>
and later reads them back from `git branch` / `ls-remote` listings, prefixes
and all; the function-level check only parses names it builds itself.

For source branch names with fragments that look like something else
(origin/, w/, q/, versions, ticket keys, nested slashes) a pull request is
driven cooperatively through the whole flow on a real repository.  Oracle
(harness knowledge only): while it waits, the remote holds exactly the
integration branches named after it; once queued, exactly the queue
integration branches named after its id, versions and source; no job ends in
a Python exception; at the end it is merged and every target contains the
source tip."""
import random

from vf.world import gen, oracle, runner
from vf.world.world import World, rec_summary

LABELS = [
    'cross-origin/iframe', 'origin/x', 'origin/q/1.0', 'a/origin/w/2.0/b',
    'w/1.0/y', 'q/2.0', 'q/w/3/1.0/x', 'w/2.0/feature/z',
    'TEST-1-1.0', 'TEST-12-fix', '2.0', '1.0.0', 'x.y.z-1',
    'development/1.0', 'stabilization/1.0.0', 'hotfix/0.9.0',
    'TEST-7/remotes/origin/q/1.0', 'refs/heads/q/1.0', 'a--b__c',
    'remotes/origin/w/1.0/k',
]
PREFIXES = ('feature', 'bugfix', 'improvement')


def expected_robot_names(world, pr, refs):
    tgts = oracle.targets(list(refs), pr['dst'])
    ws = {oracle.wname(oracle.version_of(t), pr['src']) for t in tgts[1:]}
    qws = {'q/w/%d/%s/%s' % (pr['id'], oracle.version_of(t), pr['src'])
           for t in tgts}
    return tgts, ws, qws


def check_job(world, rec, acc, pr, case, state):
    st = rec['status']
    wit = {'world': True, 'c18w': True, 'config': world.config(),
           'history': world.history, 'job': rec_summary(rec), 'case': case}
    acc.evals += 1
    acc.count('c18w_jobs')
    if not runner.known_status(st):
        acc.violation(
            'system-level:job-crashes-for-a-valid-source-branch-name',
            'source branch %r: %s(%s) ended in %s: %s' % (
                pr['src'], rec['kind'], rec['arg'], st,
                (rec['details'] or '')[:200]), wit)
        return
    a = rec['after']
    tgts, ws, qws = expected_robot_names(world, pr, a.refs)
    mine_w = {n for n in a.refs if n.startswith('w/') and
              n.endswith(pr['src'])}
    mine_q = {n for n in a.refs if n.startswith('q/w/')}
    p = a.pr(pr['id'])
    if p and p['state'] == 'OPEN' and mine_w and not mine_q:
        acc.count('c18w_integration_names_checked')
        if mine_w != ws:
            acc.violation(
                'system-level:integration-branch-names-differ',
                'source %r: integration branches on the remote %s, '
                'expected %s' % (pr['src'], sorted(mine_w), sorted(ws)), wit)
    if mine_q:
        acc.count('c18w_queue_names_checked')
        state['queued'] = True
        if mine_q != qws:
            acc.violation(
                'system-level:queue-branch-names-differ',
                'source %r, PR #%d: queue integration branches on the '
                'remote %s, expected %s' % (pr['src'], pr['id'],
                                            sorted(mine_q), sorted(qws)),
                wit)


def run_case(acc, seed, idx, label, prefix, layout, mode):
    rng = random.Random('c18w-%s-%s' % (seed, idx))
    world = World(layout=layout, queue_mode=mode, seed=rng.getrandbits(30))
    case = [seed, idx, label, prefix, layout, mode]
    try:
        src = '%s/%s' % (prefix, label)
        dst = world.layout['chain'][0]
        state = {}
        holder = {}

        def on_job(rec):
            acc.count('jobs')
            if 'pr' in holder:
                check_job(world, rec, acc, holder['pr'], case, state)
        g = gen.Gen(world, rng, gen.profile(), on_job)
        pid = world.do('open_pr', src=src, dst=dst)
        pr = holder['pr'] = {'id': pid, 'src': src, 'dst': dst}
        g.prs.append(pr)
        merged = g.drive_to_merge(pr, rounds=7)
        # one more reading of whatever is left (queues included)
        g.run('pr', pid)
        snap = world.snapshot()
        p = snap.pr(pid)
        acc.count('c18w_cases')
        acc.nontrivial('w|%s|%s|%s' % (label, mode,
                                       'queued' if state.get('queued')
                                       else 'direct'))
        wit = {'world': True, 'c18w': True, 'config': world.config(),
               'history': world.history, 'case': case}
        tip = snap.refs.get(src) or (world.tip_history.get(src) or [None])[-1]
        tgts = oracle.targets(list(snap.refs), dst)
        landed = tip and all(world.is_ancestor(tip, 'refs/heads/' + t)
                             for t in tgts)
        if not (p and p['state'] == 'MERGED' and landed):
            acc.violation(
                'system-level:valid-source-name-never-merges',
                'source %r driven with green builds for 7 rounds: state %s, '
                'source tip in every target: %s; last outcomes %s' % (
                    src, p and p['state'], bool(landed),
                    [r['status'] for r in world.records[-4:]]), wit)
        else:
            acc.count('c18w_merged_and_landed')
            if len(acc.samples) < 6 and idx % 5 == 0:
                acc.sample({'system_level': True, 'source': src,
                            'mode': mode, 'targets': tgts,
                            'went_through_the_queue':
                            bool(state.get('queued'))})
    except Exception as err:
        acc.count('harness_errors')
        if isinstance(err, (TypeError, NameError, AttributeError, KeyError,
                            IndexError)):
            acc.count('harness_programming_errors')
        acc.notes.append('c18w %r: %s: %s' % (case, type(err).__name__,
                                              str(err)[:300]))
    finally:
        world.close()


def cases(seed):
    out = []
    for i, label in enumerate(LABELS):
        prefix = PREFIXES[(i + seed) % 3]
        layout = ('d2', 's1d2', 'd3')[(i + seed) % 3]
        out.append((label, prefix, layout, 'queue'))
        if i % 3 == seed % 3:
            out.append((label, prefix, layout, 'noqueue'))
    return out


def run(spec, acc):
    runner.quiet()
    cs = cases(spec['seed'])
    for idx, c in enumerate(cs):
        if idx % spec['nshards'] != spec['shard']:
            continue
        run_case(acc, spec['seed'], idx, *c)


def replay(witness, acc):
    runner.quiet()
    seed, idx, label, prefix, layout, mode = witness['case']
    run_case(acc, seed, idx, label, prefix, layout, mode)
