"""C05 companion at system level: queue evaluations on real repositories
(handle_merge_queues through CommitJob / ForceMergeQueuesJob) compared with
the longest-green-prefix oracle computed from harness knowledge (entry order
recorded by the harness, q/w tips and the host status table)."""
import random

from vf.world import gen, oracle, runner
from vf.world.world import World, rec_summary


def queue_table(refs):
    """{pr id: {version: sha}} from the q/w/<id>/<version>/<src> refs"""
    out = {}
    for n, sha in refs.items():
        if n.startswith('q/w/'):
            parts = n.split('/')
            out.setdefault(int(parts[2]), {})[parts[3]] = sha
    return out


def expected_selection(order, table, statuses, key):
    """longest all-green prefix, each hotfix queue on its own"""
    queues = {}
    for pid in order:
        vers = table.get(pid, {})
        hot = [v for v in vers if v.count('.') == 3]
        q = ('hotfix', hot[0][:hot[0].rfind('.')]) if hot else ('main',)
        queues.setdefault(q, []).append(pid)
    selected, dest_commit = [], {}
    for q, ids in queues.items():
        best, best_commits = 0, {}
        for k in range(1, len(ids) + 1):
            commits = {}
            for pid in ids[:k]:
                for v, sha in table[pid].items():
                    commits[v] = sha        # newest PR of the prefix on v
            if all(statuses.get((sha, key), 'NOTSTARTED') == 'SUCCESSFUL'
                   for sha in commits.values()):
                best, best_commits = k, commits
        selected += ids[:best]
        dest_commit.update(best_commits)
    return selected, dest_commit


def dest_of_version(version, refs):
    n = version.count('.')
    cands = ['development/' + version] if n <= 1 else \
        ['stabilization/' + version] if n == 2 else \
        ['hotfix/' + version[:version.rfind('.')]]
    return cands[0] if cands[0] in refs else None


def check_job(world, rec, acc, order):
    b, a = rec['before'], rec['after']
    tb, ta = queue_table(b.refs), queue_table(a.refs)
    for pid in sorted(ta):
        if pid not in order:
            order.append(pid)
    if not tb:
        order[:] = [p for p in order if p in ta]
        return
    st = rec['status']
    key = world.settings_dict().get('build_key')
    # was this job a queue evaluation?  (harness knowledge)
    queue_event = rec['kind'] == 'force_merge_queues' or st == 'Merged'
    if rec['kind'] == 'commit':
        sha = world.resolve(rec['arg'])
        if any(n.startswith('q/') and not n.startswith('q/w/') and s == sha
               for n, s in b.refs.items()):
            queue_event = True
    if rec['kind'] == 'pr' and st in ('NothingToDo', 'QueueBuildFailed') \
            and int(rec['arg']) in tb:
        # an event on a queued pull request is a queue evaluation only if
        # Bert-E got as far as looking at the queue (it asked the host about
        # queue commits); NothingToDo can also come from an early exit, e.g.
        # when the author deleted the source branch of the queued PR
        qshas = {sha for vers in tb.values() for sha in vers.values()}
        if any(sha in qshas for (sha, k, ans) in rec.get('status_queries',
                                                         [])):
            queue_event = True
        else:
            acc.count('c05w_pr_event_on_queued_pr_ended_before_the_queue')
    if not queue_event or st not in ('Merged', 'NothingToDo',
                                     'QueueBuildFailed'):
        order[:] = [p for p in order if p in ta]
        return
    entry = [p for p in order if p in tb]
    if rec['kind'] == 'force_merge_queues':
        exp_sel = list(entry)
        exp_commits = {}
        for pid in entry:
            for v, sha in tb[pid].items():
                exp_commits[v] = sha
    else:
        exp_sel, exp_commits = expected_selection(entry, tb, b.statuses, key)
    got_sel = [p for p in entry if p not in ta]
    acc.evals += 1
    acc.count('c05w_queue_evaluations')
    acc.nontrivial('w|%s|%s|n=%d|sel=%d|%s' % (
        world.layout_name, rec['kind'], len(entry), len(exp_sel), st))
    wit = {'world': True, 'config': world.config(),
           'history': world.history, 'job': rec_summary(rec),
           'entry_order': entry,
           'queue_commits': {str(p): {v: [s[:10], b.statuses.get(
               (s, key), 'NOTSTARTED')] for v, s in tb[p].items()}
               for p in entry}}
    if sorted(got_sel) != sorted(exp_sel):
        mech = 'system-level:queue-evaluation-merges-%s' % (
            'more-than-the-longest-green-prefix'
            if set(got_sel) - set(exp_sel) else
            'less-than-the-longest-green-prefix')
        acc.violation(mech, 'queue in entry order %s; merged %s; the '
                      'longest all-green prefix is %s (%s -> %s)' % (
                          entry, got_sel, exp_sel, rec['kind'], st), wit)
    else:
        acc.count('c05w_selection_agrees')
        if exp_sel:
            acc.count('c05w_nonempty_selection_agrees')
        for v, sha in exp_commits.items():
            d = dest_of_version(v, b.refs)
            if d and a.refs.get(d) != sha:
                acc.violation(
                    'system-level:destination-not-on-newest-selected-queue-'
                    'commit', '%s is %s after the merge, expected the queue '
                    'commit %s of version %s' % (d, (a.refs.get(d) or '-')
                                                 [:10], sha[:10], v), wit)
        if len(acc.samples) < 10 and exp_sel and len(entry) > 1:
            acc.sample({'system_level': True, 'layout': world.layout_name,
                        'entry_order': entry, 'selected': exp_sel,
                        'status': st,
                        'queue_commits': wit['queue_commits']})
    order[:] = [p for p in order if p in ta]


def run(spec, acc, n_hist):
    runner.quiet()
    for i in range(n_hist):
        rng = random.Random('c05w-%s-%s-%s' % (spec['seed'], spec['shard'],
                                               i))
        layout = rng.choice(['d2', 's1d2', 'd1s2d2', 's2d2', 'd3', 'h1d2',
                             'h1s1d2'])
        world = World(layout=layout, queue_mode='queue',
                      seed=rng.getrandbits(30))
        try:
            order = []

            def on_job(rec, world=world, order=order):
                acc.count('jobs')
                check_job(world, rec, acc, order)
            g = gen.Gen(world, rng, gen.profile(
                p_green=0.65, p_forward=0.5, p_conflict=0.0,
                w={'status': 10, 'commit_event': 10, 'admin': 0.3,
                   'amend': 0, 'rebase': 0, 'w_commit': 0,
                   'decline': 0.2},
                admin=['force_merge_queues']), on_job)
            op = rng.choice([gen.OPENERS['three_queued'],
                             gen.OPENERS['stab_paths'],
                             gen.OPENERS['batch_merge'],
                             gen.OPENERS['stab_paths']])
            op(g)
            g.walk(g.njobs + 6)
            acc.count('c05w_histories')
        except Exception as err:
            acc.count('harness_errors')
            acc.notes.append('c05w: %s: %s' % (type(err).__name__,
                                               str(err)[:200]))
        finally:
            world.close()


def replay(witness, acc):
    runner.quiet()
    cfg = witness['config']
    world = World(layout=cfg['layout'], queue_mode=cfg['queue_mode'],
                  seed=cfg.get('seed', 0), settings=cfg.get('settings'))
    order = []
    try:
        for step in witness['history']:
            out = world.apply(step)
            if 'run' in step:
                check_job(world, out, acc, order)
                for r in world.drain():
                    check_job(world, r, acc, order)
    finally:
        world.close()
