"""History generator: a weighted random walk over actors and events with
per-property profiles and directed "forward" moves, so that short histories
reach queued / merged / conflicting / reset states often.

Every step goes through World.do / World.run, so a history is replayable from
world.history.  Monitors are called by the check after every job
(`on_job(rec)`)."""
from vf.world import oracle
from vf.world.world import AUTHOR, PEER1, PEER2, LEAD, ROBOT

STATES = ('SUCCESSFUL', 'FAILED', 'STOPPED', 'INPROGRESS', 'NOTSTARTED')
BYPASSES = ('bypass_author_approval', 'bypass_build_status',
            'bypass_incompatible_branch', 'bypass_jira_check',
            'bypass_peer_approval', 'bypass_leader_approval')
PREFIXES = ('bugfix', 'feature', 'improvement')

DEFAULT_PROFILE = {
    'max_prs': 3,
    'p_green': 0.75,          # probability that a CI report is SUCCESSFUL
    'p_conflict': 0.15,       # a new PR touches the shared file
    'p_forward': 0.55,        # directed move instead of a random one
    'w': {                    # weights of the random moves
        'open_pr': 6, 'push_commit': 3, 'amend': 1, 'rebase': 1,
        'review': 2, 'comment': 3, 'delete_comment': 1,
        'status': 8, 'stale_status': 2,
        'pr_event': 8, 'child_event': 2, 'commit_event': 6,
        'admin': 1, 'decline': 0.5, 'w_commit': 0.5, 'delete_source': 0.3,
        'push_to_destination': 0, 'hand_branch': 0, 'push_tag': 0,
    },
    'comments': ['@robot bypass_build_status', '@robot bypass_peer_approval',
                 '/wait', '@robot status', '/help', '@robot: unknown_word',
                 'just a remark', '/reset', '/force_reset',
                 '@robot create_pull_requests', '/no_octopus',
                 '/after_pull_request=1'],
    'admin': ['rebuild_queues', 'delete_queues', 'force_merge_queues',
              'create_branch', 'delete_branch', 'eval_pr'],
    'hotfix_dst': True,
}


def profile(**over):
    p = {k: (dict(v) if isinstance(v, dict) else
             list(v) if isinstance(v, list) else v)
         for k, v in DEFAULT_PROFILE.items()}
    for k, v in over.items():
        if k == 'w':
            p['w'].update(v)
        else:
            p[k] = v
    return p


class Gen:
    def __init__(self, world, rng, prof=None, on_job=None):
        self.w = world
        self.rng = rng
        self.p = prof or profile()
        self.on_job = on_job or (lambda rec: None)
        self.prs = []            # [{'id', 'src', 'dst'}]
        self.n = 0
        self.njobs = 0

    # -- helpers ---------------------------------------------------------------
    def dests(self):
        heads = self.w.refs()[0]
        out = [b for b in heads if oracle.is_dest(b)]
        if not self.p.get('hotfix_dst'):
            out = [b for b in out if not b.startswith('hotfix/')]
        return sorted(out)

    def open_prs(self, snap=None):
        snap = snap or self.w.snapshot()
        return [p for p in snap.prs if p['state'] == 'OPEN']

    def run(self, kind, arg=None, **kw):
        rec = self.w.run(kind, arg, **kw)
        self.njobs += 1
        self.on_job(rec)
        for r in self.w.drain():
            self.njobs += 1
            self.on_job(r)
        return rec

    def interesting_tips(self, pr=None):
        """current source / w / q tips (symbolic refs)"""
        heads = self.w.refs()[0]
        out = []
        for b in sorted(heads):
            if b.startswith(('w/', 'q/')):
                out.append('tip:' + b)
        for p in self.prs:
            if p['src'] in heads:
                out.append('tip:' + p['src'])
        if pr is not None:
            src = pr['src']
            out = [t for t in out if t.endswith(src)] or out
        return out

    def status_value(self):
        if self.rng.random() < self.p['p_green']:
            return 'SUCCESSFUL'
        return self.rng.choice(STATES[1:])

    # -- moves -----------------------------------------------------------------
    def m_open_pr(self):
        if len(self.prs) >= self.p['max_prs']:
            return self.m_pr_event()
        dests = self.dests()
        if not dests:
            return
        self.new_pr(self.rng.choice(dests),
                    conflict=self.rng.random() < self.p['p_conflict'],
                    evaluate=self.rng.random() < 0.7)

    def _pick_pr(self):
        return self.rng.choice(self.prs) if self.prs else None

    def m_push_commit(self):
        pr = self._pick_pr()
        if pr and pr['src'] in self.w.refs()[0]:
            self.w.do('push_commit', branch=pr['src'])

    def m_amend(self):
        pr = self._pick_pr()
        if pr and pr['src'] in self.w.refs()[0]:
            self.w.do('amend', branch=pr['src'])

    def m_rebase(self):
        pr = self._pick_pr()
        if pr and pr['src'] in self.w.refs()[0] and \
                pr['dst'] in self.w.refs()[0]:
            self.w.do('rebase', branch=pr['src'], onto=pr['dst'])

    def m_review(self):
        pr = self._pick_pr()
        if pr:
            self.w.do(self.rng.choice(['approve', 'approve', 'unapprove',
                                       'request_changes']),
                      pr=pr['id'],
                      user=self.rng.choice([AUTHOR, PEER1, PEER2, LEAD]))

    def m_comment(self):
        pr = self._pick_pr()
        if pr:
            text = self.rng.choice(self.p['comments'])
            user = LEAD if 'bypass' in text else \
                self.rng.choice([AUTHOR, PEER1, LEAD])
            self.w.do('comment', pr=pr['id'], user=user, text=text)

    def m_delete_comment(self):
        pr = self._pick_pr()
        if not pr:
            return
        snap = self.w.snapshot()
        mine = [(u, t) for (u, t) in snap.comments.get(pr['id'], [])
                if u != ROBOT]
        if mine:
            u, t = self.rng.choice(mine)
            self.w.do('delete_comment', pr=pr['id'], user=u, text=t)

    def m_status(self):
        tips = self.interesting_tips()
        if tips:
            self.w.do('set_status', ref=self.rng.choice(tips),
                      state=self.status_value())

    def m_stale_status(self):
        hist = [(b, len(h)) for b, h in sorted(self.w.tip_history.items())
                if len(h) > 1 or b not in self.w.refs()[0]]
        if hist:
            b, n = self.rng.choice(hist)
            self.w.do('set_status',
                      ref='hist:%s:%d' % (b, self.rng.randrange(n)),
                      state=self.status_value())

    def m_pr_event(self):
        pr = self._pick_pr()
        if pr:
            self.run('pr', pr['id'])

    def m_child_event(self):
        snap = self.w.snapshot()
        kids = [p for p in snap.prs if p['author'] == ROBOT]
        if kids:
            self.run('pr', self.rng.choice(kids)['id'])
        else:
            self.m_pr_event()

    def m_commit_event(self):
        tips = self.interesting_tips()
        if self.rng.random() < 0.15:
            hist = [(b, len(h)) for b, h in sorted(
                self.w.tip_history.items())]
            b, n = self.rng.choice(hist)
            tips = ['hist:%s:%d' % (b, self.rng.randrange(n))]
        if tips:
            self.run('commit', self.rng.choice(tips))

    def m_admin(self):
        kinds = self.p['admin']
        if not kinds:
            return
        kind = self.rng.choice(kinds)
        if kind == 'create_branch':
            heads = self.w.refs()[0]
            cands = ['development/0.9', 'development/1.5', 'development/3.0',
                     'development/1', 'development/2',
                     'stabilization/1.0.0', 'stabilization/2.0.0',
                     'stabilization/1.0.1', 'hotfix/0.9.0',
                     'development/1.0', 'development/2.0']
            cands = [c for c in cands if c not in heads] or cands
            kw = {}
            if self.rng.random() < 0.4 and self.dests():
                kw['branch_from'] = 'tip:' + self.rng.choice(self.dests())
            self.run('create_branch', self.rng.choice(cands), **kw)
        elif kind == 'delete_branch':
            d = self.dests()
            if d:
                self.run('delete_branch', self.rng.choice(d))
        elif kind == 'eval_pr':
            pr = self._pick_pr()
            self.run('eval_pr', pr['id'] if pr and self.rng.random() < 0.9
                     else 4242)
        else:
            self.run(kind)

    def m_delete_source(self):
        """the author deletes the source branch of an open pull request"""
        pr = self._pick_pr()
        if pr and pr['src'] in self.w.refs()[0]:
            self.w.do('delete_branch', branch=pr['src'])
            self.run('pr', pr['id'])

    def m_push_to_destination(self):
        """somebody pushes a commit directly on a destination branch"""
        dests = [d for d in self.dests() if not d.startswith('hotfix/')]
        if dests:
            d = dests[-1] if self.rng.random() < 0.6 else \
                self.rng.choice(dests)
            self.w.do('push_commit', branch=d, user=LEAD)

    def _next_dev(self):
        """(name, base) of a development branch newer than every existing
        one, to be opened from the tip of the newest"""
        devs = [d for d in self.dests() if d.startswith('development/')]
        if not devs:
            return None
        order = oracle.chain(devs)
        last = order[-1]
        major = int(oracle.version_of(last).split('.')[0])
        return 'development/%d.0' % (major + 1), last

    def m_hand_branch(self):
        """somebody opens the next development branch with plain git"""
        nd = self._next_dev()
        if nd and len(self.dests()) < 6:
            self.w.do('create_branch_by_hand', branch=nd[0], base=nd[1])

    def m_push_tag(self):
        """somebody releases: tag x.y.z on a development / stabilization
        branch (the next patch of that line)"""
        heads, tags = self.w.refs()
        dests = [d for d in self.dests() if d.count('.') >= 1]
        if not dests:
            return
        self.m_push_tag_on(self.rng.choice(dests))

    def m_push_tag_on(self, d):
        heads, tags = self.w.refs()
        v = oracle.version_of(d).split('.')
        if d.startswith('hotfix/'):
            # the next hotfix revision x.y.z.n
            revs = [int(t.split('.')[3]) for t in tags
                    if t.count('.') == 3 and t.split('.')[:3] == v and
                    t.split('.')[3].isdigit()]
            tag = '%s.%d' % ('.'.join(v), max(revs) + 1 if revs else 1)
        elif d.startswith('stabilization/'):
            tag = '.'.join(v)
        else:
            patches = [int(t.split('.')[2]) for t in tags
                       if t.count('.') == 2 and t.split('.')[:2] == v and
                       t.split('.')[2].isdigit()]
            tag = '%s.%s.%d' % (v[0], v[1], max(patches) + 1 if patches
                                else 0)
        if tag not in tags:
            self.w.do('push_tag', tag=tag, ref=d)

    def m_decline(self):
        pr = self._pick_pr()
        if pr:
            self.w.do('decline', pr=pr['id'])
            self.run('pr', pr['id'])

    def m_w_commit(self):
        heads = self.w.refs()[0]
        ws = [b for b in sorted(heads) if b.startswith('w/')]
        if ws:
            self.w.do('manual_commit', branch=self.rng.choice(ws))

    # -- directed move: push one PR forward ------------------------------------
    def m_forward(self, pr=None, rounds=None):
        pr = pr or self._pick_pr()
        if not pr:
            return self.m_open_pr()
        rounds = rounds or self.rng.choice([1, 2, 3, 4])
        for _ in range(rounds):
            if not self.forward_once(pr):
                break

    def forward_once(self, pr):
        """evaluate, then do what a cooperative team / CI would do next.
        Returns False when the PR is finished or stuck."""
        rec = self.run('pr', pr['id'])
        st = rec['status']
        if st in ('BuildNotStarted', 'BuildInProgress', 'BuildFailed'):
            for t in self.interesting_tips(pr):
                if t.endswith(pr['src']) and not t.startswith('tip:q/'):
                    self.w.do('set_status', ref=t, state=self.status_value())
            return True
        if st == 'ApprovalRequired':
            for u in (AUTHOR, PEER1, PEER2, LEAD):
                self.w.do('approve', pr=pr['id'], user=u)
            return True
        if st in ('Queued', 'QueueBuildFailed') or \
                (st == 'NothingToDo' and self.queued()):
            heads = self.w.refs()[0]
            qw = [b for b in sorted(heads) if b.startswith('q/w/')]
            for b in qw:
                if self.rng.random() < 0.9:
                    self.w.do('set_status', ref='tip:' + b,
                              state=self.status_value())
            qs = [b for b in sorted(heads) if b.startswith('q/') and
                  not b.startswith('q/w/')]
            if qw:
                # a report on the newest queue commit (a q/<version> tip)
                # wakes the queue up; one on an older q/w commit does not
                self.run('commit', 'tip:' + self.rng.choice(
                    qs if qs and self.rng.random() < 0.7 else qw))
            return False
        if st in ('Conflict', 'BranchHistoryMismatch', 'QueueConflict'):
            if self.rng.random() < 0.5:
                self.w.do('comment', pr=pr['id'], user=AUTHOR, text='/reset')
            else:
                self.w.do('decline', pr=pr['id'])
            self.run('pr', pr['id'])
            return False
        if st in ('QueueOutOfOrder', 'IncoherentQueues'):
            self.run('rebuild_queues')
            return True
        if st in ('RequestIntegrationBranches',):
            self.w.do('comment', pr=pr['id'], user=AUTHOR,
                      text='/create_integration_branches')
            return True
        return False

    def queued(self):
        return any(b.startswith('q/w/') for b in self.w.refs()[0])

    # -- directed openers (prefixes that reach rarely sampled regions) ---------
    def new_pr(self, dst, conflict=False, evaluate=True):
        self.n += 1
        src = '%s/TEST-%d-%s' % (self.rng.choice(PREFIXES), self.n,
                                 self.rng.choice(['a', 'fix.1', 'x_y']))
        files = None
        if conflict:
            files = {'shared.txt': 'line\n' * 2 + 'changed by %s\n' % src +
                     'line\n' * 2}
        pr = self.w.do('open_pr', src=src, dst=dst, files=files)
        d = {'id': pr, 'src': src, 'dst': dst}
        self.prs.append(d)
        if evaluate:
            self.run('pr', pr)
        return d

    def op_two_prs_same_base(self):
        """two PRs branched from the same destination tip, both pushed to
        merge one after the other (the second one then needs real merge
        commits on every target)"""
        dests = [d for d in self.dests() if not d.startswith('hotfix/')]
        dst = dests[0] if self.rng.random() < 0.7 else self.rng.choice(dests)
        a = self.new_pr(dst)
        b = self.new_pr(dst)
        self.m_forward(a, 4)
        self.m_forward(b, 4)

    def op_stab_between_devs(self):
        dests = self.dests()
        stabs = [d for d in dests if d.startswith('stabilization/')]
        devs = [d for d in dests if d.startswith('development/')]
        if not stabs:
            return self.op_two_prs_same_base()
        a = self.new_pr(devs[0])
        b = self.new_pr(self.rng.choice(stabs))
        c = self.new_pr(devs[-1])
        for pr in (a, b, c):
            self.m_forward(pr, 3)

    def op_three_queued(self):
        """queue several PRs before any queue build is reported"""
        dests = [d for d in self.dests()]
        prs = [self.new_pr(self.rng.choice(dests)) for _ in range(3)]
        for pr in prs:
            for _ in range(2):
                rec = self.run('pr', pr['id'])
                if rec['status'].startswith('Build'):
                    for t in self.interesting_tips(pr):
                        if t.endswith(pr['src']) and \
                                not t.startswith('tip:q/'):
                            self.w.do('set_status', ref=t,
                                      state='SUCCESSFUL')
        heads = self.w.refs()[0]
        for b in sorted(heads):
            if b.startswith('q/w/'):
                self.w.do('set_status', ref='tip:' + b,
                          state=self.status_value())
        qw = [b for b in sorted(heads) if b.startswith('q/w/')]
        if qw:
            self.run('commit', 'tip:' + self.rng.choice(qw))

    def op_dest_moves_while_open(self):
        """a PR is opened, then another one is merged under it"""
        dests = [d for d in self.dests() if not d.startswith('hotfix/')]
        a = self.new_pr(dests[0])
        self.forward_once(a)
        b = self.new_pr(self.rng.choice(dests))
        self.m_forward(b, 4)
        self.m_forward(a, 4)

    def step(self):
        if self.rng.random() < self.p['p_forward']:
            return self.m_forward()
        names = sorted(self.p['w'])
        weights = [self.p['w'][n] for n in names]
        name = self.rng.choices(names, weights)[0]
        return getattr(self, 'm_' + name)()

    def walk(self, max_jobs, max_steps=200):
        steps = 0
        while self.njobs < max_jobs and steps < max_steps:
            steps += 1
            self.step()

    def drive_to_merge(self, pr, rounds=6):
        """cooperative set-up step: green builds everywhere until the PR is
        merged"""
        for _ in range(rounds):
            snap = self.w.snapshot()
            p = snap.pr(pr['id'])
            if p is None or p['state'] != 'OPEN':
                return True
            rec = self.run('pr', pr['id'])
            if rec['status'] == 'ApprovalRequired':
                for u in (AUTHOR, PEER1, PEER2, LEAD):
                    self.w.do('approve', pr=pr['id'], user=u)
            heads = self.w.refs()[0]
            for n in sorted(heads):
                if n == pr['src'] or n.startswith('q/') or \
                        (n.startswith('w/') and n.endswith('/' + pr['src'])):
                    self.w.do('set_status', ref='tip:' + n,
                              state='SUCCESSFUL')
            qs = [n for n in sorted(heads) if n.startswith('q/') and
                  not n.startswith('q/w/')]
            if qs and rec['status'] in ('Queued', 'NothingToDo',
                                        'QueueBuildFailed'):
                self.run('commit', 'tip:' + qs[-1])
        return False

    def op_backport(self, finish=True):
        """a branch forked from the oldest destination is merged into a later
        destination first, the oldest destination then moves, and the same
        branch is finally proposed on the oldest destination (backport)"""
        dests = [d for d in self.dests() if not d.startswith('hotfix/')]
        if len(dests) < 2:
            return self.op_two_prs_same_base()
        old, later = dests[0], self.rng.choice(dests[1:])
        self.n += 1
        src = 'bugfix/TEST-%d-backport' % self.n
        pr = self.w.do('open_pr', src=src, dst=later, base=old)
        a = {'id': pr, 'src': src, 'dst': later}
        self.prs.append(a)
        self.drive_to_merge(a)
        c = self.new_pr(old)
        self.drive_to_merge(c)
        prb = self.w.do('open_pr', src=src, dst=old, reuse=True)
        b = {'id': prb, 'src': src, 'dst': old}
        self.prs.append(b)
        self.run('pr', prb)
        if finish:
            self.m_forward(b, 4)

    def op_partial_merge(self):
        """a PR gets a new commit after it entered the queue, then the queue
        is merged (partial merge), then it is evaluated again"""
        dests = self.dests()
        a = self.new_pr(self.rng.choice(dests))
        for _ in range(3):
            rec = self.run('pr', a['id'])
            if rec['status'] == 'Queued':
                break
            for t in self.interesting_tips(a):
                if not t.startswith('tip:q/'):
                    self.w.do('set_status', ref=t, state='SUCCESSFUL')
        if a['src'] in self.w.refs()[0]:
            self.w.do('push_commit', branch=a['src'])
        heads = self.w.refs()[0]
        qw = [b for b in sorted(heads) if b.startswith('q/')]
        for b in qw:
            self.w.do('set_status', ref='tip:' + b, state='SUCCESSFUL')
        if qw:
            self.run('commit', 'tip:' + qw[-1])

    def op_dependency_then_other(self):
        """one PR waits for another (after_pull_request), is evaluated, and
        an unrelated PR is opened afterwards"""
        dests = self.dests()
        a = self.new_pr(self.rng.choice(dests))
        b = self.new_pr(self.rng.choice(dests), evaluate=False)
        self.w.do('comment', pr=b['id'], user=AUTHOR,
                  text='/after_pull_request=%d' % a['id'])
        self.run('pr', b['id'])
        self.new_pr(self.rng.choice(dests), evaluate=False)

    def op_admin_branches(self):
        """create-branch requests with explicit branching points (older than /
        between / newer than the existing branches), then a PR"""
        dests = [d for d in self.dests() if not d.startswith('hotfix/')]
        a = self.new_pr(dests[0])
        self.m_forward(a, 3)
        for name in self.rng.sample(['development/0.5', 'development/1.5',
                                     'development/7.0', 'development/0.8',
                                     'stabilization/2.0.0'], 3):
            kw = {}
            if self.rng.random() < 0.8:
                kw['branch_from'] = 'tip:' + self.rng.choice(self.dests())
            self.run('create_branch', name, **kw)

    def queue_pr(self, pr):
        """cooperative: green source / w tips until the PR is queued"""
        for _ in range(3):
            rec = self.run('pr', pr['id'])
            if rec['status'] in ('Queued', 'SuccessMessage', 'Merged'):
                return rec['status']
            for t in self.interesting_tips(pr):
                if t.endswith(pr['src']) and not t.startswith('tip:q/'):
                    self.w.do('set_status', ref=t, state='SUCCESSFUL')
        return None

    def op_stab_paths(self):
        """merge-path corner: PRs queued on a stabilization branch that sits
        above the oldest queued version and on the oldest development branch,
        queue builds non-green on one path only"""
        dests = [d for d in self.dests() if not d.startswith('hotfix/')]
        stabs = [d for d in dests if d.startswith('stabilization/')]
        devs = [d for d in dests if d.startswith('development/')]
        if not stabs or len(devs) < 2:
            return self.op_three_queued()
        stab = stabs[-1]
        order = self.rng.choice([[stab, devs[0], stab],
                                 [devs[0], stab, stabs[0]],
                                 [stab, devs[0], devs[0]],
                                 [devs[0], stab, devs[-1]]])
        prs = [self.new_pr(d, evaluate=False) for d in order]
        for pr in prs:
            self.queue_pr(pr)
        heads = self.w.refs()[0]
        qw = [b for b in sorted(heads) if b.startswith('q/w/')]
        # every queue commit green except the commits of two of the PRs on
        # their own destination version (70 %), or a random assignment
        own = []
        for pr in prs:
            ver = oracle.version_of(pr['dst'])
            own += [b for b in qw if b.startswith('q/w/%d/%s/' % (pr['id'],
                                                                   ver))]
        red = set(self.rng.sample(own, min(2, len(own)))) \
            if self.rng.random() < 0.7 else None
        for b in qw:
            if red is not None:
                st = self.rng.choice(STATES[1:]) if b in red \
                    else 'SUCCESSFUL'
            else:
                st = 'SUCCESSFUL' if self.rng.random() < 0.6 else \
                    self.rng.choice(STATES[1:])
            self.w.do('set_status', ref='tip:' + b, state=st)
        qs = [b for b in sorted(heads) if b.startswith('q/') and
              not b.startswith('q/w/')]
        # a build report on each queue tip in turn (an evaluation started
        # from a stabilization or an older development queue sees the same
        # queues as one started from the newest)
        self.rng.shuffle(qs)
        for q in qs:
            if q in self.w.refs()[0]:
                self.run('commit', 'tip:' + q)

    def op_manual_on_middle_w(self):
        """a commit pushed by hand on an intermediate integration branch whose
        successor was already in sync, every tip green afterwards"""
        dests = [d for d in self.dests() if not d.startswith('hotfix/')]
        a = self.new_pr(dests[0])
        self.forward_once(a)
        heads = self.w.refs()[0]
        ws = sorted(n for n in heads if n.startswith('w/') and
                    n.endswith('/' + a['src']))
        if len(ws) >= 2:
            self.w.do('manual_commit', branch=self.rng.choice(ws[:-1]))
        elif ws:
            self.w.do('manual_commit', branch=ws[0])
        for _ in range(3):
            for t in self.interesting_tips(a):
                if t.endswith(a['src']):
                    self.w.do('set_status', ref=t, state='SUCCESSFUL')
            rec = self.run('pr', a['id'])
            if rec['status'] in ('Queued', 'SuccessMessage', 'Merged'):
                break
        self.m_forward(a, 2)

    def op_conflict_on_later_target(self):
        """the PR conflicts with a change that only exists on a later
        destination: the conflict shows up on the 2nd+ integration branch"""
        dests = [d for d in self.dests() if not d.startswith('hotfix/')]
        if len(dests) < 2:
            return self.op_two_prs_same_base()
        later = self.rng.choice(dests[1:]) if self.rng.random() < 0.5 \
            else dests[-1]
        self.w.do('push_commit', branch=later, user=LEAD, files={
            'shared.txt': 'line\nline\ntheirs on %s\nline\nline\n' % later})
        self.n += 1
        src = 'bugfix/TEST-%d-conflict' % self.n
        pr = self.w.do('open_pr', src=src, dst=dests[0], files={
            'shared.txt': 'line\nline\nmine\nline\nline\n'})
        a = {'id': pr, 'src': src, 'dst': dests[0]}
        self.prs.append(a)
        self.run('pr', pr)
        self.run('pr', pr)

    def op_conflict_resolved(self):
        """a PR conflicts with a later destination; meanwhile another PR is
        merged on its own destination; the author resolves the conflict on
        the integration branch as the message asks; then it is merged"""
        dests = [d for d in self.dests() if not d.startswith('hotfix/')]
        if len(dests) < 2:
            return self.op_two_prs_same_base()
        k = self.rng.randrange(1, len(dests))
        later = dests[k]
        self.w.do('push_commit', branch=later, user=LEAD, files={
            'shared.txt': 'line\nline\ntheirs on %s\nline\nline\n' % later})
        self.n += 1
        src = 'bugfix/TEST-%d-conflict' % self.n
        pr = self.w.do('open_pr', src=src, dst=dests[0], files={
            'shared.txt': 'line\nline\nmine\nline\nline\n'})
        a = {'id': pr, 'src': src, 'dst': dests[0]}
        self.prs.append(a)
        rec = self.run('pr', pr)
        c = self.new_pr(dests[0])
        self.drive_to_merge(c)
        if rec['status'] == 'Conflict':
            prev = src if k == 1 else oracle.wname(
                oracle.version_of(dests[k - 1]), src)
            self.w.do('resolve_conflict',
                      wbranch=oracle.wname(oracle.version_of(later), src),
                      dst=later, source=prev)
        self.drive_to_merge(a)

    def op_source_pushed_during_job(self):
        """everything is green and approved; while the deciding job runs, the
        author pushes one more (never built) commit on the source branch,
        right before one of the robot's reads of the pull-request list"""
        dests = [d for d in self.dests() if not d.startswith('hotfix/')]
        dst = dests[0] if self.rng.random() < 0.7 else self.rng.choice(dests)
        a = self.new_pr(dst)
        for _ in range(2):
            rec = self.run('pr', a['id'])
            if rec['status'] == 'ApprovalRequired':
                for u in (AUTHOR, PEER1, PEER2, LEAD):
                    self.w.do('approve', pr=a['id'], user=u)
        heads = self.w.refs()[0]
        for n in sorted(heads):
            if n == a['src'] or (n.startswith('w/') and
                                 n.endswith('/' + a['src'])):
                self.w.do('set_status', ref='tip:' + n, state='SUCCESSFUL')
        self.w.do('arm_push_at_pr_read', branch=a['src'],
                  nth=1)
        self.run('pr', a['id'])

    def op_batch_merge(self):
        """several PRs on different destinations (newest first) queued, then
        merged by ONE queue evaluation"""
        dests = [d for d in self.dests() if not d.startswith('hotfix/')]
        order = list(reversed(dests))[:3] if self.rng.random() < 0.6 \
            else [self.rng.choice(dests) for _ in range(3)]
        prs = [self.new_pr(d, evaluate=False) for d in order]
        for pr in prs:
            self.queue_pr(pr)
        heads = self.w.refs()[0]
        qs = [b for b in sorted(heads) if b.startswith('q/')]
        for b in qs:
            self.w.do('set_status', ref='tip:' + b, state='SUCCESSFUL')
        plain = [b for b in qs if not b.startswith('q/w/')]
        if plain:
            self.run('commit', 'tip:' + self.rng.choice(plain))

    def op_queue_conflict(self):
        """two PRs that only conflict with each other: the second one cannot
        enter the queue behind the first"""
        dests = [d for d in self.dests() if not d.startswith('hotfix/')]
        dst = dests[0]
        a = self.new_pr(dst, conflict=True, evaluate=False)
        b = self.new_pr(dst, conflict=True, evaluate=False)
        self.queue_pr(a)
        self.queue_pr(b)
        self.m_forward(b, 2)
        self.m_forward(a, 3)

    def op_dest_pushed_while_queued(self):
        """a PR is queued, the queue is evaluated without merging, somebody
        pushes directly on a queued destination, then the builds turn green"""
        dests = [d for d in self.dests() if not d.startswith('hotfix/')]
        hot = [d for d in self.dests() if d.startswith('hotfix/')]
        if hot and self.rng.random() < 0.5:
            # the same on a hotfix branch (its queue is on no merge path)
            dests = hot
        a = self.new_pr(dests[0], evaluate=False)
        self.queue_pr(a)
        heads = self.w.refs()[0]
        qs = [b for b in sorted(heads) if b.startswith('q/') and
              not b.startswith('q/w/')]
        if not qs:
            return
        # the queue commits may be the (already green) integration commits:
        # make one build still running so that the first evaluation only
        # validates the queue
        for b in qs:
            self.w.do('set_status', ref='tip:' + b, state='SUCCESSFUL')
        self.w.do('set_status', ref='tip:' + qs[-1], state='INPROGRESS')
        self.run('commit', 'tip:' + qs[0])
        self.w.do('push_commit', branch=self.rng.choice(dests), user=LEAD)
        for b in sorted(self.w.refs()[0]):
            if b.startswith('q/'):
                self.w.do('set_status', ref='tip:' + b, state='SUCCESSFUL')
        self.run('commit', 'tip:' + qs[-1])
        self.run('pr', a['id'])


def op_hand_branch_then_merge(g):
    """a PR is queued (or pending), an evaluation that creates or removes
    nothing runs, somebody opens the next development branch with plain git,
    then the builds turn green and the PR is evaluated"""
    dests = [d for d in g.dests() if not d.startswith('hotfix/')]
    a = g.new_pr(dests[0] if g.rng.random() < 0.6 else g.rng.choice(dests),
                 evaluate=False)
    g.queue_pr(a)
    heads = g.w.refs()[0]
    qs = [b for b in sorted(heads) if b.startswith('q/') and
          not b.startswith('q/w/')]
    if qs:
        for b in qs:
            g.w.do('set_status', ref='tip:' + b, state='SUCCESSFUL')
        g.w.do('set_status', ref='tip:' + qs[-1], state='INPROGRESS')
        g.run('commit', 'tip:' + qs[0])
    else:
        g.run('pr', a['id'])
    g.m_hand_branch()
    for b in sorted(g.w.refs()[0]):
        if b.startswith('q/') or b == a['src'] or \
                (b.startswith('w/') and b.endswith('/' + a['src'])):
            g.w.do('set_status', ref='tip:' + b, state='SUCCESSFUL')
    if qs:
        g.run('commit', 'tip:' + qs[-1])
    g.run('pr', a['id'])
    g.m_forward(a, 3)


def op_bypass_on_other_pr(g):
    """an admin waives the build on ONE pull request of an author; another
    pull request of the same author, with a failed build and no waiver, is
    evaluated by the same instance afterwards"""
    dests = [d for d in g.dests() if not d.startswith('hotfix/')]
    a = g.new_pr(dests[0])
    g.w.do('comment', pr=a['id'], user=LEAD,
           text=g.rng.choice(['@robot bypass_build_status',
                              '/bypass_build_status']))
    g.run('pr', a['id'])
    b = g.new_pr(g.rng.choice(dests))
    bad = g.rng.choice(['FAILED', 'FAILED', 'STOPPED', 'INPROGRESS'])
    for _ in range(2):
        heads = g.w.refs()[0]
        for n in sorted(heads):
            if n == b['src'] or (n.startswith('w/') and
                                 n.endswith('/' + b['src'])):
                g.w.do('set_status', ref='tip:' + n, state=bad)
        g.run('pr', b['id'])


def op_hotfix_two_queues(g):
    """a hotfix pull request is queued, the hotfix revision it was queued
    for is released (tag x.y.z.n pushed), a second hotfix pull request gets
    a queue of its own, everything turns green"""
    hot = [d for d in g.w.refs()[0] if d.startswith('hotfix/')]
    if not hot:
        return g.op_dest_pushed_while_queued()
    a = g.new_pr(hot[0], evaluate=False)
    g.queue_pr(a)
    g.m_push_tag_on(hot[0])
    b = g.new_pr(hot[0], evaluate=False)
    g.queue_pr(b)
    heads = g.w.refs()[0]
    for n in sorted(heads):
        if n.startswith('q/'):
            g.w.do('set_status', ref='tip:' + n, state='SUCCESSFUL')
    qs = [n for n in sorted(heads) if n.startswith('q/') and
          not n.startswith('q/w/')]
    if qs:
        g.run('commit', 'tip:' + qs[-1])
    g.run('pr', a['id'])
    g.run('pr', b['id'])


OPENERS = {
    'bypass_on_other_pr': op_bypass_on_other_pr,
    'hotfix_two_queues': op_hotfix_two_queues,
    'hand_branch_then_merge': op_hand_branch_then_merge,
    'two_prs_same_base': Gen.op_two_prs_same_base,
    'stab_between_devs': Gen.op_stab_between_devs,
    'three_queued': Gen.op_three_queued,
    'dest_moves_while_open': Gen.op_dest_moves_while_open,
    'backport': Gen.op_backport,
    'conflict_resolved': Gen.op_conflict_resolved,
    'source_pushed_during_job': Gen.op_source_pushed_during_job,
    'backport_pending': lambda g: g.op_backport(finish=False),
    'dest_pushed_while_queued': Gen.op_dest_pushed_while_queued,
    'queue_conflict': Gen.op_queue_conflict,
    'manual_on_middle_w': Gen.op_manual_on_middle_w,
    'conflict_on_later_target': Gen.op_conflict_on_later_target,
    'batch_merge': Gen.op_batch_merge,
    'stab_paths': Gen.op_stab_paths,
    'admin_branches': Gen.op_admin_branches,
    'partial_merge': Gen.op_partial_merge,
    'dependency_then_other': Gen.op_dependency_then_other,
}
