"""C07 companion at system level: on a long-lived Bert-E instance serving
several pull requests by different authors (one of them an admin), every
option that a robot message or the finished job shows in effect must be
justified by harness knowledge of who wrote what on THAT pull request."""
import random

from vf.world import monitors, runner
from vf.world.world import World, AUTHOR, PEER1, PEER2, LEAD, ROBOT, \
    rec_summary

PRIVILEGED = ('bypass_author_approval', 'bypass_build_status',
              'bypass_commit_size', 'bypass_incompatible_branch',
              'bypass_jira_check', 'bypass_peer_approval',
              'bypass_leader_approval')
MARK = '*The following options are set:* **'
TEXTS = ['@robot bypass_build_status', '/bypass_peer_approval',
         '@robot: bypass_author_approval', '/approve', '@robot approve',
         '@robot bypass_build_status bypass_peer_approval', '/wait',
         '/unanimity', '@robot bypass_leader_approval']


def footer_options(text):
    i = text.rfind(MARK)
    if i < 0:
        return []
    rest = text[i + len(MARK):]
    j = rest.find('**')
    return [o.strip() for o in rest[:j].split(',') if o.strip()]


def justified(world, snap, pr, option):
    admins = [str(a) for a in world.settings_dict()['admins']]
    if option in PRIVILEGED:
        if option in world.cmd_line_options:
            return True
        for user, text in snap.comments.get(pr['id'], []):
            if user in admins and user != pr['author'] and \
                    option in monitors.addressed_keywords(text):
                return True
        return False
    if option == 'approve':
        return any(user == pr['author'] and
                   'approve' in monitors.addressed_keywords(text)
                   for user, text in snap.comments.get(pr['id'], []))
    return True


def check_job(world, rec, acc):
    b, a = rec['before'], rec['after']
    for p in a.prs:
        if p['author'] == ROBOT:
            continue
        old = len(b.comments.get(p['id'], []))
        for (user, text) in a.comments.get(p['id'], [])[old:]:
            if user != ROBOT:
                continue
            opts = footer_options(text)
            acc.evals += 1
            acc.count('c07w_robot_messages_checked')
            for o in opts:
                if o in PRIVILEGED or o == 'approve':
                    acc.count('c07w_options_in_effect_checked')
                    acc.nontrivial('w|%s|%s|%s' % (
                        o, 'own' if p['author'] == LEAD else 'other',
                        rec['status']))
                    if not justified(world, b, p, o):
                        acc.violation(
                            'system-level:%s-in-effect-without-entitled-'
                            'comment' % ('privileged-option'
                                         if o in PRIVILEGED else 'approve'),
                            'PR #%d (author %s): robot message after %s(%s) '
                            '-> %s lists option %s; comments on that PR: %s'
                            % (p['id'], p['author'], rec['kind'],
                               rec['arg'], rec['status'], o,
                               [(u, t[:40]) for u, t in
                                b.comments.get(p['id'], []) if u != ROBOT]),
                            {'world': True, 'config': world.config(),
                             'history': world.history,
                             'job': rec_summary(rec)})


def run(spec, acc, n_hist):
    runner.quiet()
    for i in range(n_hist):
        rng = random.Random('c07w-%s-%s-%s' % (spec['seed'], spec['shard'],
                                               i))
        world = World(layout=rng.choice(['d1', 'd2']),
                      queue_mode=rng.choice(['queue', 'noqueue']),
                      seed=rng.getrandbits(30),
                      settings={'admins': [LEAD, PEER2],
                                'need_author_approval': True,
                                'required_peer_approvals': 1})
        try:
            authors = [AUTHOR, LEAD, PEER1, PEER2]
            prs = []
            for k, u in enumerate(authors):
                src = 'bugfix/TEST-%d-by-%s' % (k + 1, u)
                pid = world.do('open_pr', src=src,
                               dst=world.layout['chain'][0], user=u)
                prs.append({'id': pid, 'author': u, 'src': src})
            # a small palette of (user, text) pairs is re-used on several
            # pull requests: the same words are legitimate on one PR and not
            # on another
            palette = [(rng.choice([AUTHOR, LEAD, PEER1, PEER2]),
                        rng.choice(TEXTS)) for _ in range(2)]
            palette.append((rng.choice([LEAD, PEER2]), rng.choice(TEXTS[:3])))
            for step in range(rng.randrange(12, 22)):
                p = rng.choice(prs)
                r = rng.random()
                if r < 0.5:
                    user, text = rng.choice(palette) if rng.random() < 0.75 \
                        else (rng.choice([AUTHOR, LEAD, PEER1, PEER2]),
                              rng.choice(TEXTS))
                    world.do('comment', pr=p['id'], user=user, text=text)
                elif r < 0.6:
                    snap = world.snapshot()
                    mine = [(u, t) for (u, t) in
                            snap.comments.get(p['id'], []) if u != ROBOT]
                    if mine:
                        u, t = rng.choice(mine)
                        world.do('delete_comment', pr=p['id'], user=u,
                                 text=t)
                elif r < 0.65:
                    world.do('approve', pr=p['id'],
                             user=rng.choice([AUTHOR, LEAD, PEER1]))
                rec = world.run('pr', p['id'])
                acc.count('jobs')
                acc.seen('job_outcomes', 'pr:' + rec['status'])
                check_job(world, rec, acc)
                world.drain()
            acc.count('c07w_histories')
        finally:
            world.close()


def replay(witness, acc):
    runner.quiet()
    cfg = witness['config']
    world = World(layout=cfg['layout'], queue_mode=cfg['queue_mode'],
                  seed=cfg.get('seed', 0), settings=cfg.get('settings'))
    try:
        for step in witness['history']:
            out = world.apply(step)
            if 'run' in step:
                check_job(world, out, acc)
                world.drain()
    finally:
        world.close()
