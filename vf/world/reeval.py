"""C10 / C19 differential experiments at one state of a world."""
from vf.world.fork import fork_try
from vf.world.world import ROBOT, rec_summary

COMMAND_STATUSES = ('ResetComplete', 'HelpMessage', 'StatusReport',
                    'CommandNotImplemented')


def state_digest(world):
    s = world.snapshot()
    return {'refs': s.refs, 'tags': s.tags,
            'prs': [(p['id'], p['author'], p['src'], p['dst'], p['state'],
                     p['title']) for p in s.prs],
            'comments': {str(k): v for k, v in s.comments.items()}}


def diff_digest(a, b):
    out = {}
    for k in ('refs', 'tags'):
        d = {n: [a[k].get(n), b[k].get(n)] for n in set(a[k]) | set(b[k])
             if a[k].get(n) != b[k].get(n)}
        if d:
            out[k] = d
    if a['prs'] != b['prs']:
        out['prs'] = [p for p in b['prs'] if p not in a['prs']] or \
            [a['prs'], b['prs']]
    for k in set(a['comments']) | set(b['comments']):
        ca, cb = a['comments'].get(k, []), b['comments'].get(k, [])
        if ca != cb:
            out.setdefault('comments', {})[k] = \
                [c for c in cb[len(ca):]] or [len(ca), len(cb)]
    return out


def all_evaluations(world):
    """every evaluation Bert-E can be asked for at this state"""
    s = world.snapshot()
    evs = [('pr', p['id']) for p in s.prs]
    srcs = {p['src'] for p in s.prs if p['author'] != ROBOT}
    for n in sorted(s.refs):
        if n.startswith(('w/', 'q/')) or n in srcs:
            evs.append(('commit', 'tip:' + n))
    return evs


def thrice(world, ev, fresh=False):
    """child: deliver `ev` four times (on a fresh instance if asked) and
    report the digest after each"""
    def child():
        if fresh:
            world.berte = world.fresh_berte()
        d0 = state_digest(world)
        out = {'d0': d0, 'steps': []}
        prev = d0
        for i in range(4):
            rec = world.run(ev[0], ev[1], record=False)
            pending = len(rec['pending'])
            drained = world.drain()
            d = state_digest(world)
            out['steps'].append({
                'status': rec['status'],
                'details': (rec['details'] or '')[:200],
                'diff': diff_digest(prev, d),
                'pending': pending,
                'drained': [r['status'] for r in drained],
                'summary': rec_summary(rec)})
            if i == 0:
                out['d1'] = d
            prev = d
        return out
    return fork_try(world, child)


def once(world, ev, fresh):
    def child():
        if fresh:
            world.berte = world.fresh_berte()
        rec = world.run(ev[0], ev[1], record=False)
        drained = world.drain()
        return {'status': rec['status'],
                'details': (rec['details'] or '')[:200],
                'drained': [r['status'] for r in drained],
                'd1': state_digest(world)}
    return fork_try(world, child)


def newest_user_comment_is_command(world, pr_ids):
    """is there a command comment after the robot's last message on one of
    these PRs (harness knowledge: the generator's command texts)"""
    s = world.snapshot()
    for pid in pr_ids:
        cs = s.comments.get(pid, [])
        for (u, t) in reversed(cs):
            if u == ROBOT:
                break
            w = t.strip().lstrip('@/').replace(ROBOT, '').strip(': ')
            if w.split(' ')[0] in ('reset', 'force_reset', 'help', 'status',
                                   'build', 'retry', 'clear'):
                return True
    return False


def classify_non_convergence(world, diff):
    """finer mechanism for a fourth repetition that still changes the state
    (known findings are keyed by mechanism)"""
    if set(diff) <= {'prs', 'comments'} and diff.get('prs'):
        new_prs = diff['prs']
        only_fresh_children = all(
            isinstance(p, (list, tuple)) and len(p) == 6 and p[1] == ROBOT
            and str(p[2]).startswith('w/') and p[4] == 'MERGED'
            for p in new_prs)
        nothing_to_merge = only_fresh_children and all(
            world.rev('refs/heads/' + p[2]) and
            world.is_ancestor('refs/heads/' + p[2], 'refs/heads/' + p[3])
            for p in new_prs)
        # the new children are announced; the message that was last on the
        # pull request is then no longer "the same message twice in a row"
        # and is posted again behind the announcement
        only_announcements = all(
            isinstance(cs, list) and cs and
            all(isinstance(c, (list, tuple)) and c[0] == ROBOT for c in cs)
            and 'Integration data created' in cs[0][1]
            for cs in diff.get('comments', {}).values())
        if nothing_to_merge and only_announcements:
            return ('integration-pull-request-recreated-at-every-evaluation-'
                    'for-an-integration-branch-with-nothing-to-merge')
    return 'fourth-identical-evaluation-still-changes-the-state'


def explore_state(world, acc, rng, max_evals=8):
    evs = all_evaluations(world)
    rng.shuffle(evs)
    base_witness = {'config': world.config(), 'history': list(world.history)}
    for ev in evs[:max_evals]:
        acc.evals += 1
        a = thrice(world, ev)
        if 'inconclusive' in a:
            acc.count('c10_children_inconclusive')
            acc.notes.append('c10 child: %s' % a['inconclusive'][:200])
            continue
        acc.count('c10_evaluations_repeated')
        sts = [s['status'] for s in a['steps']]
        acc.seen('c10_status_sequences', '>'.join(sts))
        acc.nontrivial('%s|%s' % (ev[0], '>'.join(sts)))
        w = dict(base_witness, evaluation=list(ev),
                 steps=a['steps'])
        # the statement: one evaluation plus "at most two more" reach a
        # stable state, so the FOURTH identical evaluation must be a no-op
        third = a['steps'][3]
        if third['diff']:
            acc.violation(
                classify_non_convergence(world, third['diff']),
                '%s repeated: statuses %s; fourth repeat changed %s'
                % (list(ev), sts, str(third['diff'])[:300]), w)
        if a['steps'][2]['diff']:
            acc.count('c10_third_evaluation_still_changed_something')
        # a command whose effect is observed again without a new command
        for i in (1, 2, 3):
            if a['steps'][i]['status'] in COMMAND_STATUSES and \
                    a['steps'][i - 1]['status'] in COMMAND_STATUSES:
                acc.violation(
                    'command-executed-again-without-new-command-comment',
                    '%s repeated: statuses %s (no comment was added between '
                    'the evaluations)' % (list(ev), sts), w)
                break
        # same evaluation on a fresh instance
        b = once(world, ev, fresh=True)
        if 'inconclusive' in b:
            acc.count('c10_children_inconclusive')
            continue
        acc.count('c10_fresh_vs_long_lived_compared')
        first = a['steps'][0]
        d = diff_digest(a['d1'], b['d1'])
        if first['status'] != b['status'] or d:
            acc.violation(
                'outcome-depends-on-server-instance',
                '%s: long-lived instance -> %s, fresh instance -> %s; state '
                'difference %s' % (list(ev), first['status'], b['status'],
                                   str(d)[:300]),
                dict(w, fresh={'status': b['status'], 'diff': d}))
        elif len(acc.samples) < 5:
            acc.sample({'config': world.config(), 'evaluation': list(ev),
                        'statuses_of_four_repeats': sts,
                        'fourth_repeat_changes': third['diff'],
                        'fresh_instance_status': b['status']})
