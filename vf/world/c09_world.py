"""C09 companion at system level: what a LONG-LIVED Bert-E computes for a pull
request (targets, ignored branches, fix versions, rejection of ill-formed
cascades) while somebody releases (pushes version tags) and opens new
destination branches with plain git BETWEEN jobs.  The function-level check
feeds BranchCascade directly and cannot see a cascade computed from stale
data (a tag or branch list remembered from an earlier job).

After every pull-request job whose cascade was built, the cascade the job
used (job.git.cascade: dst_branches, ignored_branches, target_versions) or
the cascade rejection the job ended with is compared with the C09 oracle
applied to the branches and tags that were on the remote when the job
started."""
import random

from vf.world import gen, oracle, runner
from vf.world.world import World, rec_summary

REJECTIONS = ('DeprecatedStabilizationBranch', 'DevBranchDoesNotExist',
              'DevBranchesNotSelfContained', 'UnsupportedMultipleStabBranches',
              'VersionMismatch', 'NotASingleDevBranch',
              'UnrecognizedBranchPattern', 'BranchNameInvalid',
              'WrongDestination')


def observed(rec):
    job = rec.get('job')
    if rec['kind'] != 'pr' or job is None or not hasattr(job, 'git'):
        return None
    if rec['status'] in REJECTIONS:
        return ('raise', rec['status'], True, 'job')
    cascade = getattr(job.git, 'cascade', None)
    dst = [b.name for b in getattr(cascade, 'dst_branches', [])]
    if not dst:
        return None
    return ('ok', dst, [str(b) for b in cascade.ignored_branches],
            list(cascade.target_versions))


def check_job(world, rec, acc, ctx):
    from vf.checks import c09
    from vf.func import c09_oracle
    got = observed(rec)
    if got is None:
        acc.count('c09w_jobs_without_cascade')
        return
    b = rec['before']
    pr = b.pr(int(rec['arg']))
    if pr is None or pr['author'] == 'robot':
        return
    names = sorted(n for n in b.refs if oracle.is_dest(n))
    tags = sorted(b.tags)
    exp = c09_oracle.expected(names, tags, pr['dst'])
    acc.evals += 1
    acc.count('c09w_cascades_compared')
    moved = ctx.get('last') is not None and ctx['last'] != (names, tags)
    ctx['last'] = (names, tags)
    if moved:
        acc.count('c09w_first_cascade_after_a_release_or_new_branch')
    acc.nontrivial('w|%s|%d-branches|%d-tags|%s|%s%s' % (
        world.layout_name, len(names), len(tags),
        pr['dst'].split('/')[0], got[0],
        '|after-change' if moved else ''))
    ok = c09.matches(exp, got) or any(c09.matches(a, got)
                                      for a in exp['alts'])
    if ok:
        if exp['versions'] is not None and got[0] == 'ok':
            acc.count('c09w_versions_agree')
        if len(acc.samples) < 6 and moved and got[0] == 'ok':
            acc.sample({'system_level': True, 'branches': names,
                        'tags': tags, 'destination': pr['dst'],
                        'targets': got[1], 'fix_versions': got[3]})
        return
    ref = ([e for e in [exp] + exp['alts']
            if e['reject'] == (got[0] == 'raise')] + [exp])[0]
    mech = 'system-level:' + c09.mechanism(ref, got, pr['dst'])
    real = 'ended %s' % got[1] if got[0] == 'raise' else \
        'targets=%r ignored=%r versions=%r' % got[1:]
    want = 'a rejection (%s)' % ', '.join(ref['reject_reasons']) \
        if ref['reject'] else 'targets=%r ignored=%r versions=%r' % (
            ref['targets'], ref['ignored'], ref['versions'])
    acc.violation(mech, 'remote has branches=%r tags=%r, pull request on %s: '
                  'the job %s; the statement wants %s' % (
                      names, tags, pr['dst'], real, want),
                  {'world': True, 'c09w': True, 'config': world.config(),
                   'history': world.history, 'job': rec_summary(rec)})


def run(spec, acc, n_hist):
    runner.quiet()
    for i in range(n_hist):
        rng = random.Random('c09w-%s-%s-%s' % (spec['seed'], spec['shard'],
                                               i))
        layout = rng.choice(['d2', 's1d2', 'd3', 'h1d2', 'h1s1d2', 'd1M1d2',
                             's2d2'])
        world = World(layout=layout,
                      queue_mode=rng.choice(['queue', 'noqueue']),
                      seed=rng.getrandbits(30),
                      settings={'required_peer_approvals': 1})
        try:
            ctx = {}

            def on_job(rec, world=world, ctx=ctx):
                acc.count('jobs')
                check_job(world, rec, acc, ctx)
            g = gen.Gen(world, rng, gen.profile(
                p_green=0.8, p_forward=0.25, p_conflict=0.0, max_prs=2,
                w={'push_tag': 9, 'hand_branch': 2, 'pr_event': 12,
                   'open_pr': 4, 'status': 2, 'commit_event': 1,
                   'comment': 0, 'delete_comment': 0, 'amend': 0,
                   'rebase': 0, 'w_commit': 0, 'admin': 0, 'decline': 0,
                   'delete_source': 0, 'stale_status': 0, 'review': 0,
                   'child_event': 0, 'push_commit': 1}), on_job)
            g.walk(14, max_steps=60)
            acc.count('c09w_histories')
        except Exception as err:
            acc.count('harness_errors')
            if isinstance(err, (TypeError, NameError, AttributeError,
                                KeyError, IndexError)):
                acc.count('harness_programming_errors')
            acc.notes.append('c09w: %s: %s' % (type(err).__name__,
                                               str(err)[:300]))
        finally:
            world.close()


def replay(witness, acc):
    runner.quiet()
    cfg = witness['config']
    world = World(layout=cfg['layout'], queue_mode=cfg['queue_mode'],
                  seed=cfg.get('seed', 0), settings=cfg.get('settings'))
    ctx = {}
    try:
        for step in witness['history']:
            out = world.apply(step)
            if 'run' in step:
                check_job(world, out, acc, ctx)
                for r in world.drain():
                    check_job(world, r, acc, ctx)
    finally:
        world.close()
