"""Monitors over job records of the world harness.  Each is a function
(world, rec, acc, ctx) that looks at the boundary observations of one job
(refs before/after on the bare repository, the mock host's tables, the job's
status, the shim's argv log) and reports violations of ONE property."""
from vf.world import oracle
from vf.world.world import ROBOT, rec_summary


def witness(world, rec, extra=None):
    w = {'config': world.config(), 'history': world.history,
         'job': rec_summary(rec)}
    if extra:
        w.update(extra)
    return w


def inclusion_pairs(names):
    """(smaller, larger) pairs the statement of C01 requires: each
    stabilization branch in its development branch, each development branch in
    the next one (development/x after every development/x.*)."""
    pairs = []
    devs = []
    for n in names:
        p = oracle.parse_dest(n)
        if p and p[0] == 'dev':
            devs.append((p[1], float('inf') if p[2] is None else p[2], n))
    devs.sort()
    for a, b in zip(devs, devs[1:]):
        pairs.append((a[2], b[2]))
    for n in names:
        p = oracle.parse_dest(n)
        if p and p[0] == 'stab':
            dev = 'development/%d.%d' % (p[1], p[2])
            if dev in names:
                pairs.append((n, dev))
    return pairs


def broken_pairs(world, refs):
    out = []
    for a, b in inclusion_pairs(list(refs)):
        if not world.is_ancestor(refs[a], refs[b]):
            out.append((a, b))
    return out


def moved_dests(rec):
    b, a = rec['before'].refs, rec['after'].refs
    return {n: (b.get(n), a.get(n)) for n in set(b) | set(a)
            if oracle.is_dest(n) and b.get(n) != a.get(n)}


def c01_inclusion(world, rec, acc, ctx):
    """After every job: if the inclusion invariant held before, it holds
    after."""
    acc.evals += 1
    moved = moved_dests(rec)
    if not moved:
        acc.count('c01_jobs_without_destination_change')
        return
    before_broken = broken_pairs(world, rec['before'].refs)
    if before_broken:
        acc.count('c01_vacuous_invariant_already_broken')
        return
    after_broken = broken_pairs(world, rec['after'].refs)
    kinds = sorted('new' if v[0] is None else 'deleted' if v[1] is None
                   else oracle.parse_dest(k)[0] for k, v in moved.items())
    acc.count('c01_checked_movements')
    acc.nontrivial('%s|%s|%s|%s|%s|%s' % (
        world.layout_name, world.queue_mode,
        'no_octopus' if 'no_octopus' in world.cmd_line_options else 'oct',
        rec['kind'], rec['status'], ','.join(kinds)))
    acc.seen('c01_outcomes_moving_destinations',
             '%s:%s' % (rec['kind'], rec['status']))
    if after_broken:
        acc.violation(
            'inclusion-broken-by-%s' % rec['kind'],
            'after %s(%s) -> %s: %s no longer contained in %s (it held '
            'before the job)' % (rec['kind'], rec['arg'], rec['status'],
                                 after_broken[0][0], after_broken[0][1]),
            witness(world, rec, {'broken': after_broken}))
    elif len(acc.samples) < 4:
        acc.sample({'config': world.config(), 'job': rec_summary(rec),
                    'pairs_checked': inclusion_pairs(
                        list(rec['after'].refs))})
