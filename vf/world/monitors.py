"""Monitors over job records of the world harness.  Each is a function
(world, rec, acc, ctx) that looks at the boundary observations of one job
(refs before/after on the bare repository, the mock host's tables, the job's
status, the shim's argv log) and reports violations of ONE property."""
from vf.world import oracle
from vf.world.world import ROBOT, rec_summary


def witness(world, rec, extra=None):
    w = {'config': world.config(), 'history': world.history,
         'job': rec_summary(rec)}
    if extra:
        w.update(extra)
    return w


def inclusion_pairs(names):
    """(smaller, larger) pairs the statement of C01 requires: each
    stabilization branch in its development branch, each development branch in
    the next one (development/x after every development/x.*)."""
    pairs = []
    devs = []
    for n in names:
        p = oracle.parse_dest(n)
        if p and p[0] == 'dev':
            devs.append((p[1], float('inf') if p[2] is None else p[2], n))
    devs.sort()
    for a, b in zip(devs, devs[1:]):
        pairs.append((a[2], b[2]))
    for n in names:
        p = oracle.parse_dest(n)
        if p and p[0] == 'stab':
            dev = 'development/%d.%d' % (p[1], p[2])
            if dev in names:
                pairs.append((n, dev))
    return pairs


def broken_pairs(world, refs):
    out = []
    for a, b in inclusion_pairs(list(refs)):
        if not world.is_ancestor(refs[a], refs[b]):
            out.append((a, b))
    return out


def moved_dests(rec):
    b, a = rec['before'].refs, rec['after'].refs
    return {n: (b.get(n), a.get(n)) for n in set(b) | set(a)
            if oracle.is_dest(n) and b.get(n) != a.get(n)}


def c01_inclusion(world, rec, acc, ctx):
    """After every job: if the inclusion invariant held before, it holds
    after."""
    acc.evals += 1
    moved = moved_dests(rec)
    if not moved:
        acc.count('c01_jobs_without_destination_change')
        return
    before_broken = broken_pairs(world, rec['before'].refs)
    if before_broken:
        acc.count('c01_vacuous_invariant_already_broken')
        return
    after_broken = broken_pairs(world, rec['after'].refs)
    kinds = sorted('new' if v[0] is None else 'deleted' if v[1] is None
                   else oracle.parse_dest(k)[0] for k, v in moved.items())
    acc.count('c01_checked_movements')
    acc.nontrivial('%s|%s|%s|%s|%s|%s' % (
        world.layout_name, world.queue_mode,
        'no_octopus' if 'no_octopus' in world.cmd_line_options else 'oct',
        rec['kind'], rec['status'], ','.join(kinds)))
    acc.seen('c01_outcomes_moving_destinations',
             '%s:%s' % (rec['kind'], rec['status']))
    if after_broken:
        acc.violation(
            'inclusion-broken-by-%s' % rec['kind'],
            'after %s(%s) -> %s: %s no longer contained in %s (it held '
            'before the job)' % (rec['kind'], rec['arg'], rec['status'],
                                 after_broken[0][0], after_broken[0][1]),
            witness(world, rec, {'broken': after_broken}))
    elif len(acc.samples) < 4:
        acc.sample({'config': world.config(), 'job': rec_summary(rec),
                    'pairs_checked': inclusion_pairs(
                        list(rec['after'].refs))})


# ---------------------------------------------------------------------------
# harness knowledge about waivers (who said what; never Bert-E's own words)
def addressed_keywords(text):
    """keywords of a comment addressed to the robot in one of the forms the
    generator produces ('@robot kw', '@robot: kw', '/kw'); else []"""
    t = text.strip()
    if t.startswith('@' + ROBOT):
        t = t[len(ROBOT) + 1:].lstrip(':')
    elif t.startswith('/'):
        t = t.replace('/', ' ')
    else:
        return []
    for sep in ',.-:;|+':
        t = t.replace(sep, ' ')
    return [k.split('=')[0] for k in t.split()]


def option_by_admin(world, snap, pr, option):
    admins = [str(a) for a in world.settings_dict()['admins']]
    for user, text in snap.comments.get(pr['id'], []):
        if user in admins and user != pr['author'] and \
                option in addressed_keywords(text):
            return True
    return False


def option_waived(world, snap, pr, option):
    if option in world.cmd_line_options:
        return True
    pao = world.extra_settings.get('pr_author_options') or {}
    if option in (pao.get(pr['author']) or []):
        return True
    return option_by_admin(world, snap, pr, option)


def build_waived(world, snap, pr):
    if not world.settings_dict().get('build_key'):
        return True
    return option_waived(world, snap, pr, 'bypass_build_status')


def no_octopus_active(world, snap, prs):
    if 'no_octopus' in world.cmd_line_options:
        return True
    for pr in prs:
        for user, text in snap.comments.get(pr['id'], []):
            if 'no_octopus' in addressed_keywords(text):
                return True
    return False


def newly_merged(rec):
    out = []
    for p in rec['after'].prs:
        b = rec['before'].pr(p['id'])
        if b and b['state'] == 'OPEN' and p['state'] == 'MERGED' and \
                p['author'] != ROBOT:
            out.append(p)
    return out


def c03_green_destinations(world, rec, acc, ctx):
    """Queue mode: a destination only advances to a commit whose status under
    the build key is SUCCESSFUL in the host's table, unless forced / bypassed
    direct merge."""
    if world.queue_mode == 'noqueue':
        return
    key = world.settings_dict().get('build_key')
    b, a = rec['before'], rec['after']
    for name, (old, new) in sorted(moved_dests(rec).items()):
        if old is None or new is None:
            continue                      # creation / deletion, not an advance
        acc.evals += 1
        status = a.statuses.get((new, key), 'NOTSTARTED') if key else None
        merged = newly_merged(rec)
        direct = rec['status'] == 'SuccessMessage'
        if rec['kind'] == 'force_merge_queues':
            exempt = 'force-merge'
        elif not key:
            exempt = 'no-build-key'
        elif direct and merged and all(build_waived(world, b, p)
                                       for p in merged):
            exempt = 'bypassed-direct-merge'
        else:
            exempt = None
        nstab = len([n for n in a.refs if n.startswith('stabilization/')])
        octo = 'no_octopus' if no_octopus_active(world, b, merged) else 'oct'
        acc.count('c03_destination_advances')
        acc.nontrivial('%s|%s|%s|%s|%s|n=%d|%s' % (
            world.layout_name, world.queue_mode, octo,
            'direct' if direct else rec['status'], exempt or 'checked',
            len(merged), oracle.parse_dest(name)[0]))
        if exempt:
            acc.count('c03_exempt_' + exempt)
            continue
        acc.count('c03_advances_checked')
        if status != 'SUCCESSFUL':
            if direct and octo == 'no_octopus':
                mech = 'direct-merge-no-octopus-lands-unbuilt-merge-commit'
            elif direct:
                mech = 'direct-merge-lands-non-green-commit'
            elif nstab >= 2:
                mech = 'queue-merge-non-green-commit-two-stabilization-paths'
            else:
                mech = 'queue-merge-lands-non-green-commit'
            acc.violation(
                mech, '%s(%s) -> %s moved %s to %s whose %r status is %s '
                '(merged PRs %s, queue mode %s)' % (
                    rec['kind'], rec['arg'], rec['status'], name, new[:10],
                    key, status, [p['id'] for p in merged],
                    world.queue_mode),
                witness(world, rec, {'destination': name, 'new_tip': new,
                                     'status': status}))
        elif len(acc.samples) < 4:
            acc.sample({'config': world.config(), 'job': rec_summary(rec),
                        'destination': name, 'new_tip_status': status})


FAILING = ('FAILED', 'STOPPED')
PENDING = ('NOTSTARTED', 'INPROGRESS')


def c06_build_gate(world, rec, acc, ctx):
    """A PR that entered the queue / was merged directly in this job had a
    green source tip and green integration tips (host table + the status
    queries Bert-E made), unless waived; BuildFailed only with a failed tip;
    pending builds are answered silently."""
    key = world.settings_dict().get('build_key')
    b, a = rec['before'], rec['after']
    st = rec['status']
    table = a.statuses
    for mp in rec.get('mid_job_pushes') or []:
        if mp['ok']:
            acc.count('c06_pushes_during_a_job_before_the_pr_read')
            acc.seen('c06_outcomes_with_a_push_during_the_job', st)

    def status_of(sha):
        return table.get((sha, key), 'NOTSTARTED')

    if st == 'Queued':
        ids = set()
        for n in a.refs:
            if n.startswith('q/w/') and n not in b.refs:
                ids.add(int(n.split('/')[2]))
        prs = [a.pr(i) for i in ids if a.pr(i)]
    elif st == 'SuccessMessage':
        prs = newly_merged(rec)
    elif st in ('BuildFailed', 'BuildNotStarted', 'BuildInProgress'):
        prs = []
    else:
        return
    acc.evals += 1
    names = list(a.refs)
    if st in ('Queued', 'SuccessMessage'):
        for pr in prs:
            if build_waived(world, b, pr):
                acc.count('c06_entries_waived')
                continue
            acc.count('c06_entries_checked')
            tgts = oracle.targets(list(b.refs), pr['dst'])
            src_tip = a.refs.get(pr['src']) or b.refs.get(pr['src'])
            bad = []
            if src_tip is None or status_of(src_tip) != 'SUCCESSFUL':
                bad.append(('source', src_tip,
                            src_tip and status_of(src_tip)))
            green_q = [sha for (sha, k, ans) in rec['status_queries']
                       if k == key and ans == 'SUCCESSFUL']
            for t in tgts[1:]:
                wn = oracle.wname(oracle.version_of(t), pr['src'])
                if st == 'Queued':
                    tip = a.refs.get(wn)
                    if tip is None or status_of(tip) != 'SUCCESSFUL':
                        bad.append((wn, tip, tip and status_of(tip)))
                else:
                    # direct merge: the w/ branch is gone; some commit that
                    # Bert-E asked about and was answered green must sit
                    # between (source tip, old target tip) and the new target
                    old, new = b.refs.get(t), a.refs.get(t)
                    ok = any(world.is_ancestor(src_tip, x) and
                             world.is_ancestor(old, x) and
                             world.is_ancestor(x, new) for x in green_q)
                    if not ok:
                        bad.append((wn, None, 'no green integration commit '
                                    'was looked up for ' + t))
            acc.nontrivial('%s|%s|%s|targets=%d' % (
                world.layout_name, world.queue_mode, st, len(tgts)))
            if bad:
                acc.violation(
                    'enters-queue-or-merges-with-non-green-integration-commit',
                    'PR #%d %s although %s' % (pr['id'], st, bad),
                    witness(world, rec, {'bad': bad}))
            elif len(acc.samples) < 3:
                acc.sample({'config': world.config(),
                            'job': rec_summary(rec), 'pr': pr,
                            'targets': tgts})
        return
    # refusals: find the evaluated PR by harness knowledge
    pr = evaluated_pr(world, rec)
    if pr is None:
        acc.count('c06_refusal_pr_unknown')
        return
    tgts = oracle.targets(list(a.refs), pr['dst'])
    tips = [a.refs.get(pr['src'])] + [
        a.refs.get(oracle.wname(oracle.version_of(t), pr['src']))
        for t in tgts[1:]]
    if any(t is None for t in tips):
        acc.count('c06_refusal_tips_incomplete')
        return
    sts = [status_of(t) for t in tips]
    new_comments = len(a.comments.get(pr['id'], [])) - \
        len(b.comments.get(pr['id'], []))
    acc.count('c06_refusals_checked')
    acc.nontrivial('%s|%s|%s|%s' % (world.layout_name, world.queue_mode, st,
                                    ','.join(sorted(set(sts)))))
    if st == 'BuildFailed' and not any(s in FAILING for s in sts):
        acc.violation('build-failed-without-failed-tip',
                      'PR #%d BuildFailed but integration tips are %s'
                      % (pr['id'], sts), witness(world, rec))
    if st in ('BuildNotStarted', 'BuildInProgress'):
        if any(s in FAILING for s in sts):
            acc.violation('failed-build-answered-silently',
                          'PR #%d %s but integration tips are %s'
                          % (pr['id'], st, sts), witness(world, rec))
        elif not any(s in PENDING for s in sts):
            acc.violation('waits-although-all-green',
                          'PR #%d %s but integration tips are %s'
                          % (pr['id'], st, sts), witness(world, rec))


def evaluated_pr(world, rec):
    """the parent PR an event is about, by harness knowledge (names)"""
    b = rec['before']
    if rec['kind'] in ('pr', 'eval_pr'):
        p = b.pr(int(rec['arg']))
        if p is None:
            return None
        if p['author'] == ROBOT:
            src = p['src'].split('/', 2)[2] if p['src'].startswith('w/') \
                else None
            for q in b.prs:
                if q['src'] == src and q['author'] != ROBOT:
                    return q
            return None
        return p
    if rec['kind'] == 'commit':
        sha = world.resolve(rec['arg'])
        names = [n for n, s in b.refs.items() if s == sha]
        srcs = set()
        for n in names:
            if n.startswith('w/'):
                srcs.add(n.split('/', 2)[2])
            elif not n.startswith('q/'):
                srcs.add(n)
        cands = [q for q in b.prs if q['src'] in srcs and
                 q['state'] == 'OPEN' and q['author'] != ROBOT]
        if len(cands) == 1:
            return cands[0]
    return None


# ---------------------------------------------------------------------------
def push_argv_problems(rec):
    """forced pushes / deletions of names the robot does not own, from the
    shim's argv log"""
    out = []
    for (n, op, cwd, argv) in rec['git']:
        if op is None:
            continue
        words = argv.replace("'", ' ').split()
        if words[:1] != ['push']:
            continue
        for wd in words[1:]:
            if wd in ('--force', '-f', '--force-with-lease', '--mirror') or \
                    wd.startswith('--force'):
                out.append(('forced-push', argv))
            elif wd.startswith('+'):
                out.append(('forced-refspec', argv))
            elif wd.startswith(':') and len(wd) > 1:
                name = wd[1:].replace('refs/heads/', '')
                if not oracle.robot_owned(name) and \
                        rec['kind'] != 'delete_branch':
                    out.append(('deletes-foreign-name', argv))
            elif wd in ('--delete', '-d'):
                out.append(('delete-flag', argv))
    return out


def c08_ownership(world, rec, acc, ctx, expected_foreign=None):
    """Every destination update is a fast-forward; nothing outside w/ q/ tmp/
    and the destinations changes or disappears (expected_foreign: values the
    third party gave to refs during the job); a destination disappears only in
    the delete-branch job with its archive tag on the old tip; no commit that
    was ever a destination tip becomes unreachable; no forced push."""
    b, a = rec['before'], rec['after']
    acc.evals += 1
    changed = {n for n in set(b.refs) | set(a.refs)
               if b.refs.get(n) != a.refs.get(n)}
    expected_foreign = expected_foreign or {}
    touched = changed | set(expected_foreign)
    if not touched and not rec['ops']:
        acc.count('c08_jobs_without_remote_effect')
        return
    acc.count('c08_jobs_checked')
    pushes = [o for o in rec['ops'] if o[1] == 'push']
    forms = sorted({'all-prune' if '--all' in o[2] else
                    'delete' if ' :' in o[2] else
                    'tag' if 'push origin' in o[2] and
                    '--set-upstream' not in o[2] else 'named'
                    for o in pushes})
    acc.nontrivial('%s|%s|%s|%s' % (rec['kind'], rec['status'],
                                    ','.join(forms),
                                    ctx.get('action', 'none')))
    probs = []
    for n in sorted(touched):
        old, new = b.refs.get(n), a.refs.get(n)
        if n in expected_foreign:
            if new != expected_foreign[n]:
                act = ctx.get('action', '?')
                if act.startswith('create-'):
                    mech = 'branch-created-during-job-%s' % (
                        'deleted' if new is None else 'changed')
                elif new == old:
                    mech = 'source-branch-%s-during-job-restored-to-' \
                        'stale-copy' % act.split('-')[0]
                else:
                    mech = 'source-branch-%s-during-job-clobbered' % \
                        act.split('-')[0]
                probs.append((
                    mech,
                    '%s was set to %s by somebody else during the job but '
                    'is %s after it' % (n, (expected_foreign[n] or '-')[:10],
                                        (new or 'deleted')[:10])))
            continue
        if oracle.robot_owned(n):
            continue
        if oracle.is_dest(n):
            if old and new and not world.is_ancestor(old, new):
                probs.append(('destination-not-fast-forwarded',
                              '%s moved from %s to %s which does not contain '
                              'it' % (n, old[:10], new[:10])))
            if old and not new:
                if rec['kind'] != 'delete_branch':
                    probs.append(('destination-deleted-outside-delete-job',
                                  '%s deleted by %s' % (n, rec['kind'])))
                else:
                    ver = oracle.version_of(n)
                    tag = ver + ('.archived_hotfix_branch'
                                 if n.startswith('hotfix/') else '')
                    tsha = world.rev('refs/tags/%s^{commit}' % tag)
                    if tsha != old:
                        probs.append((
                            'destination-deleted-without-archive-tag',
                            '%s (%s) deleted, tag %s -> %s' % (
                                n, old[:10], tag, tsha)))
            continue
        # source branches and anything else
        if old and new != old:
            probs.append(('foreign-branch-%s' % (
                'deleted' if not new else 'updated'),
                '%s: %s -> %s' % (n, old[:10], (new or 'deleted')[:10])))
        elif not old and new:
            probs.append(('foreign-branch-created',
                          '%s created by the job' % n))
    # reachability of every commit that was ever a destination tip
    if changed:
        for n, hist in world.tip_history.items():
            if not oracle.is_dest(n):
                continue
            for sha in hist:
                p = world.bgit('for-each-ref', '--contains', sha,
                               '--count=1', '--format=%(refname)')
                if not p.stdout.strip():
                    probs.append(('former-destination-tip-unreachable',
                                  '%s (%s) is reachable from no branch or '
                                  'tag' % (sha[:10], n)))
    for kind, argv in push_argv_problems(rec):
        probs.append((kind, argv[:200]))
    for mech, desc in probs:
        acc.violation(mech, '%s(%s) -> %s: %s' % (
            rec['kind'], rec['arg'], rec['status'], desc),
            witness(world, rec, {'third_party': ctx.get('third_party')}))
    if not probs and len(acc.samples) < 4:
        acc.sample({'config': world.config(), 'job': rec_summary(rec),
                    'third_party_action': ctx.get('third_party')})


# ---------------------------------------------------------------------------
def c10_no_adjacent_duplicates(world, rec, acc, ctx):
    """Bert-E never posts the same message twice in a row on a PR."""
    a = rec['after']
    for pr_id, comments in a.comments.items():
        n_before = len(rec['before'].comments.get(pr_id, []))
        if len(comments) == n_before:
            continue
        acc.count('c10_comment_lists_checked')
        for i in range(max(1, n_before), len(comments)):
            (u1, t1), (u2, t2) = comments[i - 1], comments[i]
            if u1 == ROBOT and u2 == ROBOT and t1 == t2:
                acc.violation(
                    'same-message-posted-twice-in-a-row',
                    'PR #%d: robot comment %d repeats comment %d: %r'
                    % (pr_id, i, i - 1, t1[:80]), witness(world, rec))


# ---------------------------------------------------------------------------
def expected_integration_names(snap, states=('OPEN', 'DECLINED', 'MERGED')):
    """{w/ name: (parent pr, target)} for every user PR, from the harness's
    own cascade computation"""
    out = {}
    names = list(snap.refs)
    for p in snap.prs:
        if p['author'] == ROBOT or p['state'] not in states:
            continue
        tgts = oracle.targets(names, p['dst'])
        for t in tgts[1:]:
            out.setdefault(oracle.wname(oracle.version_of(t), p['src']),
                           []).append((p, t))
    return out


def c19_one_to_one(world, rec, acc, ctx):
    """after every job: integration branches / PRs are one-to-one with their
    parent; decline cleans exactly the parent's; merge removes them."""
    b, a = rec['before'], rec['after']
    acc.evals += 1
    exp = expected_integration_names(a)
    kids = [p for p in a.prs if p['author'] == ROBOT and
            p['state'] == 'OPEN']
    wrefs = [n for n in a.refs if n.startswith('w/')]
    if kids or wrefs:
        acc.count('c19_states_with_integration_data')
        acc.nontrivial('%s|%s|kids=%d|w=%d|%s:%s' % (
            world.layout_name, world.queue_mode, len(kids), len(wrefs),
            rec['kind'], rec['status']))
    wit = None
    seen = {}
    for k in kids:
        key = (k['src'], k['dst'])
        if key in seen:
            wit = wit or witness(world, rec)
            acc.violation('duplicate-open-integration-pull-request',
                          'PRs #%d and #%d are both open for %s -> %s'
                          % (seen[key], k['id'], k['src'], k['dst']), wit)
        seen[key] = k['id']
        owners = exp.get(k['src'], [])
        match = [(p, t) for (p, t) in owners if t == k['dst']]
        if not match:
            # only data created by this job is held against it
            if b.pr(k['id']) is None:
                wit = wit or witness(world, rec)
                acc.violation(
                    'integration-pull-request-without-parent-target',
                    'PR #%d %s -> %s created, but no user PR has that '
                    'integration branch for that target' % (
                        k['id'], k['src'], k['dst']), wit)
            continue
        parent = match[0][0]
        # "titled after it": the statement fixes no format; the title must
        # name the parent (its number) and carry the parent's title
        acc.count('c19_child_titles_checked')
        ids_in_title = set()
        num = ''
        for ch in k['title'] + ' ':
            if ch.isdigit():
                num += ch
            else:
                if num:
                    ids_in_title.add(int(num))
                num = ''
        if b.pr(k['id']) is None and (
                parent['id'] not in ids_in_title or
                parent['title'] not in k['title']):
            wit = wit or witness(world, rec)
            acc.violation('integration-pull-request-wrong-title',
                          'PR #%d title %r does not name its parent #%d %r'
                          % (k['id'], k['title'], parent['id'],
                             parent['title']), wit)
    for n in wrefs:
        if n not in exp and n not in b.refs:
            wit = wit or witness(world, rec)
            acc.violation('integration-branch-without-parent-target',
                          '%s created but corresponds to no (pull request, '
                          'target beyond the first)' % n, wit)
    # decline: the evaluated parent was DECLINED before the job
    pr = evaluated_pr(world, rec)
    if pr is not None and pr['state'] == 'DECLINED' and \
            rec['status'] in ('PullRequestDeclined', 'NothingToDo'):
        acc.count('c19_decline_cleanups_checked')
        mine = {oracle.wname(oracle.version_of(t), pr['src'])
                for t in oracle.targets(list(b.refs), pr['dst'])[1:]}
        # other open PRs from the same source keep their data: don't-care
        shared = [q for q in b.prs if q['src'] == pr['src'] and
                  q['id'] != pr['id'] and q['author'] != ROBOT and
                  q['state'] == 'OPEN']
        if not shared:
            left = sorted(n for n in a.refs if n in mine)
            open_kids = [k['id'] for k in kids if k['src'] in mine]
            if left or open_kids:
                wit = wit or witness(world, rec)
                acc.violation(
                    'decline-leaves-integration-data',
                    'PR #%d declined and evaluated (%s): branches %s and '
                    'integration PRs %s remain' % (pr['id'], rec['status'],
                                                   left, open_kids), wit)
        for n in set(b.refs) - set(a.refs):
            if n.startswith('w/') and n not in mine:
                wit = wit or witness(world, rec)
                acc.violation('decline-deletes-foreign-integration-branch',
                              'evaluating declined PR #%d deleted %s'
                              % (pr['id'], n), wit)
        for q in a.prs:
            bq = b.pr(q['id'])
            if bq and bq['state'] == 'OPEN' and q['state'] == 'DECLINED' \
                    and q['src'] not in mine:
                wit = wit or witness(world, rec)
                acc.violation('decline-declines-foreign-pull-request',
                              'evaluating declined PR #%d declined PR #%d '
                              '(%s)' % (pr['id'], q['id'], q['src']), wit)
    # merge: integration branches of a PR merged by this job are gone
    for p in newly_merged(rec):
        shared = [q for q in a.prs if q['src'] == p['src'] and
                  q['id'] != p['id'] and q['author'] != ROBOT]
        if shared:
            continue
        acc.count('c19_merge_cleanups_checked')
        left = [n for n in a.refs if n.startswith('w/') and
                n.endswith('/' + p['src'])]
        if left:
            wit = wit or witness(world, rec)
            acc.violation('merge-leaves-integration-branches',
                          'PR #%d merged by %s(%s) but %s remain' % (
                              p['id'], rec['kind'], rec['arg'], left), wit)


def c10_no_phantom_hold(world, rec, acc, ctx):
    """the outcome depends only on the state of the repository and of the
    pull request: a dependency / unknown-command outcome needs a comment on
    THAT pull request that asks for it"""
    st = rec['status']
    if st not in ('AfterPullRequest', 'IncorrectPullRequestNumber'):
        return
    pr = evaluated_pr(world, rec)
    if pr is None:
        return
    acc.count('c10_dependency_outcomes_checked')
    texts = [t for (u, t) in rec['before'].comments.get(pr['id'], [])
             if u != ROBOT]
    if not any('after_pull_request' in t for t in texts):
        acc.violation(
            'dependency-outcome-without-dependency-comment',
            'PR #%d: %s(%s) -> %s although no comment on that pull request '
            'mentions after_pull_request (comments: %s)' % (
                pr['id'], rec['kind'], rec['arg'], st,
                [t[:40] for t in texts]), witness(world, rec))
