"""World harness: real bare git repository + mock git host + real Bert-E.

Everything is observed at the boundary (refs of the bare repository, the mock
host's pull requests / comments / statuses, the finished job, the git shim's
argv log).  One World per process at a time (the mock host keeps its state in
class attributes).  See DESIGN.md section 2.1-2.3.
"""
import json
import os
import shutil
import stat
import subprocess
import tempfile

from vf.common import env

REAL_GIT = shutil.which('git') or '/usr/bin/git'
SHIM_SRC = os.path.join(os.path.dirname(os.path.abspath(__file__)),
                        'shim', 'git')
ORIG_PATH = os.environ.get('PATH', '/usr/bin:/bin')

ROBOT, AUTHOR, PEER1, PEER2, LEAD = 'robot', 'author', 'peer1', 'peer2', 'lead'
USERS = (AUTHOR, PEER1, PEER2, LEAD, ROBOT)
OWNER, SLUG = 'owner', 'slug'
PASSWORD = 'pw-robot'
BASE_DATE = 1700000000

CURRENT = [None]          # the live World of this process
_installed = [False]


class Inconclusive(Exception):
    pass


# ---------------------------------------------------------------------------
# layouts: ordered destination chain (oldest first) + hotfix branches + tags
LAYOUTS = {
    'd1': dict(chain=['development/1.0']),
    'd2': dict(chain=['development/1.0', 'development/2.0']),
    's1d1': dict(chain=['stabilization/1.0.0', 'development/1.0']),
    's1d2': dict(chain=['stabilization/1.0.0', 'development/1.0',
                        'development/2.0']),
    'd1M1d2': dict(chain=['development/1.0', 'development/1',
                          'development/2.0']),
    's2d2': dict(chain=['stabilization/1.0.0', 'development/1.0',
                        'stabilization/2.0.0', 'development/2.0']),
    'd4': dict(chain=['development/1.0', 'development/1.1',
                      'development/2.0', 'development/2.1']),
    'd3': dict(chain=['development/1.0', 'development/2.0',
                      'development/3.0']),
    'd1s2d2': dict(chain=['development/1.0', 'stabilization/2.0.0',
                          'development/2.0']),
    's1d3': dict(chain=['stabilization/1.0.0', 'development/1.0',
                        'development/2.0', 'development/3.0']),
    'd5': dict(chain=['development/1.0', 'development/1.1',
                      'development/2.0', 'development/2.1',
                      'development/3.0']),
    # hotfix/0.9.0 (tag 0.9.0 on its base) next to two development branches
    'h1d2': dict(chain=['development/1.0', 'development/2.0'],
                 hotfix=['hotfix/0.9.0'], tags={'0.9.0': 'root'}),
    'h1s1d2': dict(chain=['stabilization/1.0.0', 'development/1.0',
                          'development/2.0'],
                   hotfix=['hotfix/0.9.0'], tags={'0.9.0': 'root'}),
}


def _install_patches():
    """Harness-process patches that do not change Bert-E's logic: no real
    sleeping in retry loops; remote-mutating git-host calls made by the robot
    during a job are numbered in the same sequence as the pushes seen by the
    shim, and fail from operation FAIL_FROM on."""
    if _installed[0]:
        return
    _installed[0] = True
    import requests
    import bert_e.lib.retry as retry
    import bert_e.git_host.base as base
    from bert_e.git_host import mock
    retry.sleep = lambda s: None

    class _NoSleepTime:
        def __getattr__(self, name):
            import time
            if name == 'sleep':
                return lambda s: None
            return getattr(time, name)
    base.time = _NoSleepTime()

    def wrap(cls, name, kind):
        orig = getattr(cls, name)

        def wrapper(self, *a, **kw):
            w = CURRENT[0]
            if w is not None and w.in_job and \
                    getattr(self.client, 'login', None) == ROBOT:
                op = w.shim.next_op(kind, name)
                if w.shim.fail_from is not None and op >= w.shim.fail_from \
                        and (w.shim.fail_until is None or
                             op <= w.shim.fail_until):
                    raise requests.exceptions.ConnectionError(
                        'injected git-host failure (op %d, %s)' % (op, name))
                arm = w.armed_lost_reply
                if arm and arm['name'] == name:
                    arm['seen'] += 1
                    if arm['seen'] == arm['nth']:
                        # the host carries the call out, the reply is lost
                        w.armed_lost_reply = None
                        orig(self, *a, **kw)
                        w.lost_replies.append(name)
                        raise requests.exceptions.ReadTimeout(
                            'injected lost reply (%s)' % name)
            return orig(self, *a, **kw)
        wrapper.__name__ = name
        setattr(cls, name, wrapper)

    orig_gbs = mock.Repository.get_build_status

    def get_build_status(self, revision, key):
        ans = orig_gbs(self, revision, key)
        w = CURRENT[0]
        if w is not None and w.in_job:
            w.status_queries.append((revision, key, ans))
        return ans
    mock.Repository.get_build_status = get_build_status

    orig_url = mock.Repository.get_git_url

    def get_git_url(self):
        bare = orig_url(self)
        w = CURRENT[0]
        if w is not None and w.cred_url and w.in_berte:
            return w.cred_url
        return bare
    mock.Repository.get_git_url = get_git_url

    orig_gprs = mock.Repository.get_pull_requests

    def get_pull_requests(self, *a, **kw):
        # a third party (the author) pushes while the job runs: placed right
        # before one of the robot's reads of the pull-request list, which is
        # the last moment at which the host can tell Bert-E about it
        w = CURRENT[0]
        if w is not None and w.in_job and w.armed_push and \
                getattr(self.client, 'login', None) == ROBOT:
            w.pr_list_reads += 1
            if w.pr_list_reads == w.armed_push['nth']:
                arm, w.armed_push = w.armed_push, None
                w.in_job = False
                try:
                    ok = w.a_push_commit(arm['branch'], user=AUTHOR)
                finally:
                    w.in_job = True
                w.mid_job_pushes.append(
                    {'branch': arm['branch'], 'ok': ok,
                     'before_pr_list_read': arm['nth'],
                     'tip': w.rev('refs/heads/' + arm['branch'])})
        return orig_gprs(self, *a, **kw)
    mock.Repository.get_pull_requests = get_pull_requests

    wrap(mock.PullRequestController, 'add_comment', 'host')
    wrap(mock.PullRequestController, 'decline', 'host')
    wrap(mock.PullRequestController, 'set_bot_status', 'host')
    wrap(mock.Repository, 'create_pull_request', 'host')


class Shim:
    """Control and log files of the git shim."""
    def __init__(self, d):
        self.dir = d
        os.makedirs(d, exist_ok=True)
        self.fail_from = None
        self.fail_until = None
        self.reset_counters()

    def reset_counters(self):
        for f in ('n', 'ops'):
            with open(os.path.join(self.dir, f), 'w') as fh:
                fh.write('0\n')
        open(os.path.join(self.dir, 'log'), 'w').close()
        self.hostlog = []

    def set(self, fail_from=None, before_op=None, before_script=None,
            leak_at=None, leak_mode=None, leak_text=None, trace_refs=False,
            fail_until=None, fail_match=None):
        self.fail_from = fail_from
        self.fail_until = fail_until
        lines = []
        if fail_until is not None:
            lines.append('FAIL_UNTIL=%d' % fail_until)
        if fail_match is not None:
            lines.append("FAIL_MATCH='%s'" % fail_match)
        if trace_refs:
            lines.append('TRACE_REFS=1')
        if fail_from is not None:
            lines.append('FAIL_FROM=%d' % fail_from)
        if before_op is not None:
            lines.append('BEFORE_OP=%d' % before_op)
            lines.append("BEFORE_SCRIPT='%s'" % before_script)
        if leak_at is not None:
            lines.append('LEAK_AT=%d' % leak_at)
            lines.append('LEAK_MODE=%s' % leak_mode)
            lines.append("LEAK_TEXT='%s'" % leak_text.replace("'", "'\\''"))
        with open(os.path.join(self.dir, 'ctl'), 'w') as fh:
            fh.write('\n'.join(lines) + '\n')

    def clear(self):
        self.set()

    def _read(self, f):
        try:
            with open(os.path.join(self.dir, f)) as fh:
                return int(fh.read().strip() or 0)
        except (OSError, ValueError):
            return 0

    def next_op(self, kind, what):
        op = self._read('ops') + 1
        with open(os.path.join(self.dir, 'ops'), 'w') as fh:
            fh.write('%d\n' % op)
        self.hostlog.append((op, kind, what))
        return op

    def push_changes(self, op):
        """refs changed by push number `op` of a traced run:
        {refname: (old, new)}"""
        def load(suffix):
            out = {}
            try:
                with open(os.path.join(self.dir, 'refs.%d.%s'
                                       % (op, suffix))) as fh:
                    for line in fh:
                        name, sha = line.split()
                        out[name] = sha
            except OSError:
                return None
            return out
        b, a = load('before'), load('after')
        if b is None or a is None:
            return None
        return {n: (b.get(n), a.get(n)) for n in set(a) | set(b)
                if a.get(n) != b.get(n)}

    def fail_match_hits(self):
        try:
            with open(os.path.join(self.dir, 'fail_match.hits')) as fh:
                return len(fh.read().split())
        except OSError:
            return 0

    def ncommands(self):
        return self._read('n')

    def nops(self):
        return self._read('ops')

    def log(self):
        """[(n, op or None, cwd, argv)]"""
        out = []
        try:
            with open(os.path.join(self.dir, 'log')) as fh:
                for line in fh:
                    parts = line.rstrip('\n').split('\t', 3)
                    if len(parts) != 4:
                        continue
                    n, op, cwd, argv = parts
                    out.append((int(n), None if op == '-' else int(op),
                                cwd, argv))
        except OSError:
            pass
        return out

    def ops(self):
        """ordered remote-mutating operations: (op, kind, what)"""
        out = [(op, 'push', argv) for (n, op, cwd, argv) in self.log()
               if op is not None]
        out += list(self.hostlog)
        return sorted(out)


class Snapshot:
    def __init__(self, refs, tags, prs, comments, statuses):
        self.refs, self.tags, self.prs = refs, tags, prs
        self.comments, self.statuses = comments, statuses

    def digest(self):
        return {'refs': self.refs, 'tags': self.tags, 'prs': self.prs,
                'comments': {str(k): v for k, v in self.comments.items()}}

    def pr(self, pr_id):
        for p in self.prs:
            if p['id'] == pr_id:
                return p
        return None


class World:
    def __init__(self, layout='d2', queue_mode='queue', seed=0, settings=None,
                 cmd_line_options=(), credentials_url=False,
                 password=PASSWORD):
        _install_patches()
        if CURRENT[0] is not None:
            CURRENT[0].close()
        CURRENT[0] = self
        self.layout_name = layout
        self.layout = LAYOUTS[layout] if isinstance(layout, str) else layout
        self.queue_mode = queue_mode
        self.seed = seed
        self.extra_settings = dict(settings or {})
        self.cmd_line_options = list(cmd_line_options)
        self.password = password
        self.cred_url = None
        self.history = []          # replayable list of actions
        self.records = []          # JobRecords
        self.clock = 0
        self.in_job = False
        self.armed_push = None
        self.armed_lost_reply = None
        self.lost_replies = []
        self.pr_list_reads = 0
        self.mid_job_pushes = []
        self.in_berte = False
        self.status_queries = []
        self.tip_history = {}      # branch -> [sha,...] every tip ever seen
        self.dir = env.mkscratch('vf-w-')
        self.home = os.path.join(self.dir, 'home')
        self.tmp = os.path.join(self.dir, 'tmp')
        shimbin = os.path.join(self.dir, 'shimbin')
        for d in (self.home, self.tmp, shimbin):
            os.makedirs(d)
        shutil.copy(SHIM_SRC, os.path.join(shimbin, 'git'))
        os.chmod(os.path.join(shimbin, 'git'),
                 stat.S_IRWXU | stat.S_IRGRP | stat.S_IXGRP)
        self.shim = Shim(os.path.join(self.dir, 'shim'))
        os.environ.update({
            'HOME': self.home, 'TMPDIR': self.tmp,
            'PATH': shimbin + ':' + ORIG_PATH,
            'VF_SHIM_DIR': self.shim.dir, 'VF_REAL_GIT': REAL_GIT,
            'GIT_CONFIG_NOSYSTEM': '1', 'GIT_TERMINAL_PROMPT': '0',
            'LC_ALL': 'C',
        })
        os.environ.pop('VF_SHIM_OFF', None)
        tempfile.tempdir = self.tmp
        with open(os.path.join(self.home, '.gitconfig'), 'w') as f:
            f.write('[user]\n\tname = %s\n\temail = %s@nowhere.invalid\n'
                    '[init]\n\tdefaultBranch = trunk\n'
                    '[advice]\n\tdetachedHead = false\n'
                    '[gc]\n\tauto = 0\n[maintenance]\n\tauto = false\n'
                    '[merge]\n\trenameLimit = 999999\n'
                    % (AUTHOR, AUTHOR))
        self.tick()
        self._reset_mock()
        from bert_e.git_host import client_factory
        self.clients = {u: client_factory('mock', u, 'pw-' + u,
                                          u + '@nowhere.invalid')
                        for u in USERS}
        self.host_repo = self.clients[LEAD].create_repository(
            slug=SLUG, owner=OWNER)
        self.bare = self.host_repo.git_url
        os.environ['VF_BARE'] = self.bare
        self._install_update_hook()
        if credentials_url:
            # the clone URL carries the robot's credentials, built the way
            # the github / bitbucket clients build it; git maps it to the
            # local bare repository (url.<path>.insteadOf), so real git works
            # (both clients do `from urllib.parse import quote_plus as quote`)
            from urllib.parse import quote_plus
            self.cred_url = 'https://%s:%s@githost.invalid/%s/%s.git' % (
                quote_plus(ROBOT), quote_plus(password), OWNER, SLUG)
            self.git('config', '--global', 'url.%s.insteadOf' % self.bare,
                     self.cred_url, cwd=self.dir)
        self.repos = {u: self.clients[u].get_repository(slug=SLUG,
                                                        owner=OWNER)
                      for u in USERS}
        self.actor = os.path.join(self.dir, 'actor')
        self._init_repo()
        self.berte = self.fresh_berte()
        self.snap_tips()

    # -- plumbing -------------------------------------------------------------
    def close(self):
        if CURRENT[0] is self:
            CURRENT[0] = None
        if tempfile.tempdir == self.tmp:
            tempfile.tempdir = None
            os.environ.pop('TMPDIR', None)
        try:
            self.berte.git_repo.delete()
        except Exception:
            pass
        env.rmscratch(self.dir)

    def _install_update_hook(self):
        """server-side failpoint: refuse the refs listed in hooks/reject
        (real git behaviour decides what happens to the rest of the push)"""
        hook = os.path.join(self.bare, 'hooks', 'update')
        os.makedirs(os.path.dirname(hook), exist_ok=True)
        with open(hook, 'w') as f:
            f.write('#!/bin/sh\n'
                    'if [ -f hooks/reject ]; then\n'
                    '  while read r; do\n'
                    '    if [ "$r" = "$1" ]; then\n'
                    '      echo "$1" >> hooks/rejected.log\n'
                    '      echo "remote: update of $1 refused (injected)" >&2\n'
                    '      exit 1\n'
                    '    fi\n'
                    '  done < hooks/reject\n'
                    'fi\nexit 0\n')
        os.chmod(hook, 0o755)

    def reject_refs(self, refs):
        path = os.path.join(self.bare, 'hooks', 'reject')
        if refs:
            with open(path, 'w') as f:
                f.write('\n'.join(refs) + '\n')
        elif os.path.exists(path):
            os.remove(path)

    def tick(self, n=1):
        self.clock += n
        d = '%d +0000' % (BASE_DATE + self.clock * 60)
        os.environ['GIT_AUTHOR_DATE'] = d
        os.environ['GIT_COMMITTER_DATE'] = d

    def _reset_mock(self):
        from bert_e.git_host import mock
        mock.Repository.repos = {}
        mock.Repository.revisions = {}
        mock.Repository.items = []
        mock.PullRequest.items = []
        mock.Comment.items = []

    def git(self, *args, cwd=None, check=True, user=None):
        e = dict(os.environ)
        e['VF_SHIM_OFF'] = '1'
        if user:
            e.update({'GIT_AUTHOR_NAME': user, 'GIT_COMMITTER_NAME': user,
                      'GIT_AUTHOR_EMAIL': user + '@nowhere.invalid',
                      'GIT_COMMITTER_EMAIL': user + '@nowhere.invalid'})
        p = subprocess.run([REAL_GIT] + list(args), cwd=cwd or self.actor,
                           env=e, stdout=subprocess.PIPE,
                           stderr=subprocess.PIPE, text=True)
        if check and p.returncode != 0:
            raise RuntimeError('git %s failed: %s' % (' '.join(args),
                                                      p.stderr[-400:]))
        return p

    def bgit(self, *args, check=False):
        return self.git(*args, cwd=self.bare, check=check)

    def _write(self, files, cwd=None):
        for name, content in files.items():
            path = os.path.join(cwd or self.actor, name)
            os.makedirs(os.path.dirname(path), exist_ok=True)
            with open(path, 'w') as f:
                f.write(content)

    def _init_repo(self):
        self.git('clone', '-q', self.bare, self.actor, cwd=self.dir)
        self.git('checkout', '-q', '-b', 'trunk')
        self._write({'root.txt': 'root\n', 'shared.txt': 'line\n' * 5})
        self.git('add', '-A')
        self.git('commit', '-q', '-m', 'root')
        for tag, where in (self.layout.get('tags') or {}).items():
            if where == 'root':
                self.git('tag', tag)
        for hf in self.layout.get('hotfix', []):
            self.git('checkout', '-q', '-b', hf, 'trunk')
            self._write({'file_%s.txt' % hf.replace('/', '_'): hf + '\n'})
            self.git('add', '-A')
            self.git('commit', '-q', '-m', 'init ' + hf)
        prev = 'trunk'
        for b in self.layout['chain']:
            self.tick()
            self.git('checkout', '-q', '-b', b, prev)
            self._write({'file_%s.txt' % b.replace('/', '_'): b + '\n'})
            self.git('add', '-A')
            self.git('commit', '-q', '-m', 'init ' + b)
            prev = b
        self.git('checkout', '-q', '--detach')
        self.git('branch', '-D', 'trunk')
        self.git('push', '-q', '--all', 'origin')
        self.git('push', '-q', '--tags', 'origin')

    def settings_dict(self):
        s = {
            'repository_owner': OWNER, 'repository_slug': SLUG,
            'repository_host': 'mock', 'robot': ROBOT,
            'robot_email': 'robot@nowhere.invalid',
            'pull_request_base_url': 'https://host.invalid/pr/{pr_id}',
            'commit_base_url': 'https://host.invalid/c/{commit_id}',
            'build_key': 'pre-merge',
            'required_peer_approvals': 0, 'required_leader_approvals': 0,
            'need_author_approval': False,
            'always_create_integration_pull_requests': False,
            'always_create_integration_branches': True,
            'admins': [LEAD], 'project_leaders': [LEAD],
            'disable_queues': self.queue_mode == 'noqueue',
            'skip_queue_when_not_needed': self.queue_mode == 'skipqueue',
        }
        s.update(self.extra_settings)
        return s

    def fresh_berte(self):
        """A new server instance on the same HOME (mirror cache kept)."""
        import yaml
        from bert_e.settings import setup_settings
        from bert_e.bert_e import BertE
        path = os.path.join(self.dir, 'settings.yml')
        with open(path, 'w') as f:
            yaml.safe_dump(json.loads(json.dumps(self.settings_dict())), f)
        settings = setup_settings(path)
        settings['robot_password'] = self.password
        settings['jira_token'] = 'jira-token'
        settings['backtrace'] = True          # as bert_e.server does
        settings['quiet'] = True
        settings['cmd_line_options'] = list(self.cmd_line_options)
        self.in_berte = True
        try:
            return BertE(settings)
        finally:
            self.in_berte = False

    # -- observation ----------------------------------------------------------
    def refs(self):
        out = self.bgit('for-each-ref', '--format=%(refname) %(objectname)',
                        check=True).stdout
        heads, tags = {}, {}
        for line in out.splitlines():
            name, sha = line.split()
            if name.startswith('refs/heads/'):
                heads[name[11:]] = sha
            elif name.startswith('refs/tags/'):
                tags[name[10:]] = sha
        return heads, tags

    def snap_tips(self):
        heads, _ = self.refs()
        for b, sha in heads.items():
            hist = self.tip_history.setdefault(b, [])
            if not hist or hist[-1] != sha:
                hist.append(sha)
        return heads

    def snapshot(self):
        from bert_e.git_host import mock
        heads, tags = self.refs()
        for b, sha in heads.items():
            hist = self.tip_history.setdefault(b, [])
            if not hist or hist[-1] != sha:
                hist.append(sha)
        prs, comments = [], {}
        for item in sorted(mock.PullRequest.items, key=lambda p: p.id):
            prs.append({'id': item.id,
                        'author': item.author['username'],
                        'src': item.source['branch']['name'],
                        'dst': item.destination['branch']['name'],
                        'state': item.state, 'title': item.title,
                        'description': item.description})
            comments[item.id] = [
                (c.user['username'], c.content['raw'])
                for c in mock.Comment.items if c.pull_request_id == item.id]
        return Snapshot(heads, tags, prs, comments,
                        dict(mock.Repository.revisions))

    def is_ancestor(self, a, b):
        return self.bgit('merge-base', '--is-ancestor', a, b).returncode == 0

    def rev(self, ref):
        p = self.bgit('rev-parse', '--verify', '-q', ref)
        return p.stdout.strip() if p.returncode == 0 else None

    def tree(self, ref):
        return self.rev(ref + '^{tree}')

    # -- actors (what users / CI do; never through Bert-E) --------------------
    def do(self, name, **args):
        """Record and perform one replayable action."""
        self.history.append({'do': name, 'args': args})
        self.tick()
        return getattr(self, 'a_' + name)(**args)

    def _sync_actor(self):
        self.git('fetch', '-q', '--prune', 'origin')
        self.git('checkout', '-q', '--detach')

    def a_open_pr(self, src, dst, files=None, base=None, user=AUTHOR,
                  title='title', reuse=False):
        self._sync_actor()
        if not reuse:
            self.git('checkout', '-q', '-B', src, 'origin/' + (base or dst))
            self._write(files or {'f_%s.txt' % src.replace('/', '_'):
                                  src + '\n'})
            self.git('add', '-A')
            self.git('commit', '-q', '-m', 'work on ' + src, user=user)
            self.git('push', '-q', '-f', 'origin', src)
        pr = self.repos[user].create_pull_request(
            title=title, name='name', src_branch=src, dst_branch=dst,
            close_source_branch=True, description='')
        self.snap_tips()
        return pr.id

    def a_push_commit(self, branch, files=None, user=AUTHOR, msg=None):
        self._sync_actor()
        self.git('checkout', '-q', '-B', branch, 'origin/' + branch)
        self._write(files or {'extra_%s_%d.txt' % (
            branch.replace('/', '_'), self.clock): 'x\n'})
        self.git('add', '-A')
        self.git('commit', '-q', '-m', msg or ('more on ' + branch),
                 user=user)
        p = self.git('push', '-q', 'origin', branch, check=False)
        self.snap_tips()
        return p.returncode == 0

    def a_push_tag(self, tag, ref, user=LEAD):
        """somebody with push rights releases: a tag on the tip of `ref`"""
        self._sync_actor()
        self.git('tag', '-f', tag, 'origin/' + ref)
        p = self.git('push', '-q', 'origin', 'refs/tags/' + tag, check=False)
        return p.returncode == 0

    def a_create_branch_by_hand(self, branch, base, user=LEAD):
        """somebody with push rights opens a new destination branch with
        plain git (not through the create-branch job)"""
        self._sync_actor()
        p = self.git('push', '-q', 'origin',
                     'refs/remotes/origin/%s:refs/heads/%s' % (base, branch),
                     check=False)
        self.snap_tips()
        return p.returncode == 0

    def a_arm_push_at_pr_read(self, branch, nth=1):
        """the author pushes one more commit on `branch` DURING the next job,
        right before the robot's nth read of the pull-request list"""
        self.armed_push = {'branch': branch, 'nth': nth}

    def a_arm_lost_reply(self, call='add_comment', nth=1):
        """during the next job the host carries out the robot's nth call of
        `name` but the reply never arrives (read timeout)"""
        self.armed_lost_reply = {'name': call, 'nth': nth, 'seen': 0}

    def a_amend(self, branch, user=AUTHOR):
        self._sync_actor()
        self.git('checkout', '-q', '-B', branch, 'origin/' + branch)
        self.git('commit', '-q', '--amend', '-m',
                 'amended at %d' % self.clock, user=user)
        self.git('push', '-q', '-f', 'origin', branch)
        self.snap_tips()

    def a_rewind(self, branch):
        """force-push the branch back to its first parent (if it still has
        something of its own afterwards it stays a valid PR source)."""
        self._sync_actor()
        self.git('checkout', '-q', '-B', branch, 'origin/' + branch)
        self.git('reset', '-q', '--hard', 'HEAD~1')
        self.git('push', '-q', '-f', 'origin', branch)
        self.snap_tips()

    def a_rebase(self, branch, onto, user=AUTHOR):
        self._sync_actor()
        self.git('checkout', '-q', '-B', branch, 'origin/' + branch)
        p = self.git('rebase', '-q', 'origin/' + onto, check=False,
                     user=user)
        if p.returncode != 0:
            self.git('rebase', '--abort', check=False)
            return False
        self.git('push', '-q', '-f', 'origin', branch)
        self.snap_tips()
        return True

    def a_manual_commit(self, branch, files=None, user=AUTHOR):
        """a plain commit made on top of an integration branch itself"""
        return self.a_push_commit(branch, files, user=user,
                                  msg='manual work on ' + branch)

    def a_manual_merge(self, branch, other, user=AUTHOR):
        """a user's merge commit on an integration branch (what the conflict
        message asks for): merges `other` with --no-ff."""
        self._sync_actor()
        self.git('checkout', '-q', '-B', branch, 'origin/' + branch)
        p = self.git('merge', '-q', '--no-ff', '--no-edit', '-m',
                     'manual merge of %s' % other, 'origin/' + other,
                     check=False, user=user)
        if p.returncode != 0:
            self.git('merge', '--abort', check=False)
            return False
        ok = self.git('push', '-q', 'origin', branch, check=False)
        self.snap_tips()
        return ok.returncode == 0

    def a_resolve_conflict(self, wbranch, dst, source, user=AUTHOR):
        """what the conflict message asks for: create the integration
        branch from its destination, merge the source (previous integration
        branch or feature branch) resolving the conflict, push it"""
        self._sync_actor()
        heads = self.refs()[0]
        base = 'origin/' + (wbranch if wbranch in heads else dst)
        self.git('checkout', '-q', '-B', wbranch, base)
        if wbranch in heads:
            p = self.git('merge', '-q', '--no-edit', '-X', 'theirs',
                         'origin/' + dst, check=False, user=user)
            if p.returncode != 0:
                self.git('merge', '--abort', check=False)
                return False
        p = self.git('merge', '-q', '--no-edit', '-X', 'theirs', '-m',
                     'resolve conflict with %s' % source, 'origin/' + source,
                     check=False, user=user)
        if p.returncode != 0:
            self.git('merge', '--abort', check=False)
            return False
        ok = self.git('push', '-q', '-u', 'origin', wbranch, check=False)
        self.snap_tips()
        return ok.returncode == 0

    def a_delete_branch(self, branch):
        self.git('push', '-q', 'origin', ':' + branch, check=False)
        self.snap_tips()

    def _prc(self, pr_id, user):
        return self.repos[user].get_pull_request(pr_id)

    def a_approve(self, pr, user):
        self._prc(pr, user).approve()

    def a_unapprove(self, pr, user):
        self._prc(pr, user).dismiss(None)

    def a_request_changes(self, pr, user):
        self._prc(pr, user).request_changes()

    def a_comment(self, pr, user, text):
        self._prc(pr, user).add_comment(text)

    def a_delete_comment(self, pr, user, text):
        """delete the newest comment of that user with that text"""
        for c in reversed(self._prc(pr, user).comments):
            if c.author == user and c.text == text:
                c.delete()
                return True
        return False

    def a_decline(self, pr, user=AUTHOR):
        self._prc(pr, user).decline()

    def resolve(self, ref):
        """symbolic commit reference -> sha.  'tip:<branch>',
        'hist:<branch>:<k>' (k-th tip that branch ever had), or a sha."""
        if ref.startswith('tip:'):
            return self.rev('refs/heads/' + ref[4:])
        if ref.startswith('hist:'):
            branch, k = ref[5:].rsplit(':', 1)
            hist = self.tip_history.get(branch, [])
            return hist[int(k) % len(hist)] if hist else None
        return ref

    def a_set_status(self, ref, state, key='pre-merge'):
        sha = self.resolve(ref)
        if sha:
            self.repos[LEAD].set_build_status(revision=sha, key=key,
                                              state=state)
        return sha

    # -- events (what Bert-E is given) -----------------------------------------
    def make_job(self, kind, arg=None, berte=None, **kw):
        from bert_e.job import PullRequestJob, CommitJob
        berte = berte or self.berte
        if kind == 'pr':
            return PullRequestJob(
                bert_e=berte,
                pull_request=berte.project_repo.get_pull_request(int(arg)))
        if kind == 'commit':
            return CommitJob(bert_e=berte, commit=self.resolve(arg))
        if kind == 'rebuild_queues':
            from bert_e.jobs.rebuild_queues import RebuildQueuesJob
            return RebuildQueuesJob(bert_e=berte, user=LEAD)
        if kind == 'delete_queues':
            from bert_e.jobs.delete_queues import DeleteQueuesJob
            return DeleteQueuesJob(bert_e=berte, user=LEAD)
        if kind == 'force_merge_queues':
            from bert_e.jobs.force_merge_queues import ForceMergeQueuesJob
            return ForceMergeQueuesJob(bert_e=berte, user=LEAD)
        if kind == 'create_branch':
            from bert_e.jobs.create_branch import CreateBranchJob
            settings = {'branch': arg}
            if kw.get('branch_from'):
                settings['branch_from'] = self.resolve(kw['branch_from'])
            return CreateBranchJob(bert_e=berte, user=LEAD, settings=settings)
        if kind == 'delete_branch':
            from bert_e.jobs.delete_branch import DeleteBranchJob
            return DeleteBranchJob(bert_e=berte, user=LEAD,
                                   settings={'branch': arg})
        if kind == 'eval_pr':
            from bert_e.jobs.eval_pull_request import EvalPullRequestJob
            return EvalPullRequestJob(bert_e=berte, user=LEAD,
                                      settings={'pr_id': int(arg)})
        raise ValueError(kind)

    def run(self, kind, arg=None, berte=None, record=True, drain=False, **kw):
        """Deliver one event the way the server's worker does: put_job +
        process_task.  Returns the JobRecord (dict)."""
        if record:
            self.history.append({'run': kind, 'arg': arg, 'kw': kw})
        berte = berte or self.berte
        self.tick()
        before = self.snapshot()
        n0 = self.shim.ncommands()
        op0 = self.shim.nops()
        try:
            job = self.make_job(kind, arg, berte, **kw)
        except Exception as err:
            rec = {'status_queries': [],
                   'kind': kind, 'arg': arg, 'kw': kw, 'status': 'NOJOB',
                   'details': '%s: %s' % (type(err).__name__, err),
                   'before': before, 'after': before, 'ops': [], 'git': [],
                   'pending': [], 'job': None}
            self.records.append(rec)
            return rec
        self.in_job = True
        self.status_queries = []
        self.pr_list_reads = 0
        self.mid_job_pushes = []
        try:
            berte.put_job(job)
            berte.process_task()
        finally:
            self.in_job = False
            self.armed_push = None
            self.armed_lost_reply = None
        after = self.snapshot()
        rec = {
            'kind': kind, 'arg': arg, 'kw': kw,
            'mid_job_pushes': list(self.mid_job_pushes),
            'pr_list_reads': self.pr_list_reads,
            'status_queries': list(self.status_queries),
            'status': job.status, 'details': job.details,
            'before': before, 'after': after,
            'ops': [o for o in self.shim.ops() if o[0] > op0],
            'git': [l for l in self.shim.log() if l[0] > n0],
            'pending': [self.job_key(j) for j in
                        list(berte.task_queue.queue)],
            'job': job,
        }
        self.records.append(rec)
        if drain:
            rec['drained'] = self.drain(berte)
        return rec

    @staticmethod
    def job_key(job):
        if hasattr(job, 'pull_request'):
            return ('pr', job.pull_request.id)
        if hasattr(job, 'commit'):
            return ('commit', job.commit)
        return (type(job).__name__, None)

    def drain(self, berte=None, limit=20):
        """process the jobs a job left pending (e.g. rebuild_queues)"""
        berte = berte or self.berte
        out = []
        while berte.task_queue.qsize() and limit > 0:
            limit -= 1
            self.tick()
            before = self.snapshot()
            op0, n0 = self.shim.nops(), self.shim.ncommands()
            self.in_job = True
            self.status_queries = []
            try:
                job = berte.process_task()
            finally:
                self.in_job = False
            after = self.snapshot()
            rec = {'status_queries': list(self.status_queries),
                   'kind': self.job_key(job)[0], 'arg': self.job_key(job)[1],
                   'kw': {}, 'status': job.status, 'details': job.details,
                   'before': before, 'after': after,
                   'ops': [o for o in self.shim.ops() if o[0] > op0],
                   'git': [l for l in self.shim.log() if l[0] > n0],
                   'pending': [], 'job': job, 'drained_job': True}
            self.records.append(rec)
            out.append(rec)
        return out

    # -- replay ---------------------------------------------------------------
    def apply(self, step):
        if 'do' in step:
            return self.do(step['do'], **step['args'])
        return self.run(step['run'], step.get('arg'), **step.get('kw', {}))

    def config(self):
        return {'layout': self.layout_name, 'queue_mode': self.queue_mode,
                'settings': self.extra_settings,
                'cmd_line_options': self.cmd_line_options, 'seed': self.seed}


def rec_summary(rec):
    """JSON-able short form of a job record for witnesses / samples."""
    b, a = rec['before'], rec['after']
    moved = {k: [b.refs.get(k), a.refs.get(k)]
             for k in sorted(set(b.refs) | set(a.refs))
             if b.refs.get(k) != a.refs.get(k)}
    return {'job': [rec['kind'], rec['arg'], rec.get('kw') or {}],
            'status': rec['status'],
            'details': (rec['details'] or '')[:300],
            'refs_changed': {k: [(v[0] or '-')[:10], (v[1] or '-')[:10]]
                             for k, v in moved.items()},
            'ops': [list(o)[:3] for o in rec['ops']][:30]}
