"""Driver: bin/check <Cxx> [--tier quick|thorough] [--replay file].

One subprocess per shard (never multiprocessing.Pool: a dying child must not
hang the run), a generous wall-clock watchdog per shard whose firing is
*inconclusive*, merge of the shards' accumulators, classification of the
violations against known_findings.json, evidence/<id>.json.

Exit status: 0 held on what was observed; 1 violation (with a VIOLATION line
and a replay file); 2 inconclusive (INCONCLUSIVE line).
"""
import argparse
import importlib
import json
import os
import subprocess
import sys
import tempfile
import time

from vf.common import env
from vf.common.acc import Acc, h


def load_check(pid):
    return importlib.import_module('vf.checks.%s' % pid.lower())


def load_known():
    try:
        with open(env.KNOWN_FINDINGS) as f:
            data = json.load(f)
    except FileNotFoundError:
        return []
    return [e for e in data.get('findings', [])]


def run_shard_inline(mod, spec, out):
    acc = Acc()
    t0 = time.time()
    try:
        mod.run_shard(spec, acc)
    except Exception as err:  # the shard itself broke: never "held"
        import traceback
        acc.inconc('shard %s crashed: %s: %s' % (
            spec.get('shard'), type(err).__name__, str(err)[:300]))
        acc.notes.append(traceback.format_exc()[-3000:])
    d = acc.dump()
    d['wall_s'] = time.time() - t0
    with open(out, 'w') as f:
        json.dump(d, f, default=str)


def run_shards(pid, mod, specs, timeout):
    """Start every shard at once, at most NCPU at a time."""
    tmpdir = env.mkscratch('vf-drv-')
    results, running, todo = [], [], list(enumerate(specs))
    watchdog = []
    try:
        while todo or running:
            while todo and len(running) < env.NCPU:
                i, spec = todo.pop(0)
                sf = os.path.join(tmpdir, 'spec%d.json' % i)
                of = os.path.join(tmpdir, 'out%d.json' % i)
                with open(sf, 'w') as f:
                    json.dump(spec, f)
                lf = open(os.path.join(tmpdir, 'log%d.txt' % i), 'w')
                p = subprocess.Popen(
                    [env.PYTHON, '-m', 'vf.cli', pid, '--shard-spec', sf,
                     '--out', of],
                    stdout=lf, stderr=subprocess.STDOUT,
                    start_new_session=True)
                running.append((i, p, of, lf, time.time()))
            time.sleep(0.05)
            still = []
            for (i, p, of, lf, t0) in running:
                rc = p.poll()
                if rc is None:
                    if time.time() - t0 > timeout:
                        try:
                            os.killpg(p.pid, 9)
                        except OSError:
                            pass
                        p.wait()
                        watchdog.append('shard %d stopped by the %ds '
                                        'watchdog' % (i, timeout))
                        lf.close()
                    else:
                        still.append((i, p, of, lf, t0))
                    continue
                lf.close()
                if os.path.exists(of):
                    with open(of) as f:
                        results.append(json.load(f))
                else:
                    with open(lf.name) as f:
                        tail = f.read()[-1500:]
                    watchdog.append('shard %d died (rc=%s): %s'
                                    % (i, rc, tail))
            running = still
    finally:
        for (i, p, of, lf, t0) in running:
            try:
                os.killpg(p.pid, 9)
            except OSError:
                pass
        env.rmscratch(tmpdir)
    return results, watchdog


def write_replay(pid, n, v, tier, seed):
    os.makedirs(env.REPLAY_DIR, exist_ok=True)
    path = os.path.join(env.REPLAY_DIR, '%s-%d.json' % (pid, n))
    with open(path, 'w') as f:
        json.dump({'property': pid, 'tier': tier, 'seed': seed,
                   'mechanism': v['mechanism'], 'desc': v['desc'],
                   'witness': v['witness']}, f, indent=1, default=str)
    return path


def main(argv=None):
    ap = argparse.ArgumentParser()
    ap.add_argument('pid')
    ap.add_argument('--tier', default=os.environ.get('VERIF_TIER', 'quick'),
                    choices=['quick', 'thorough'])
    ap.add_argument('--replay')
    ap.add_argument('--shard-spec')
    ap.add_argument('--out')
    ap.add_argument('--inline', action='store_true',
                    help='run the shards in this process (debugging)')
    args = ap.parse_args(argv)
    pid = args.pid.upper()
    mod = load_check(pid)

    if args.shard_spec:
        with open(args.shard_spec) as f:
            spec = json.load(f)
        run_shard_inline(mod, spec, args.out)
        return 0

    seed = env.seed()
    if args.replay:
        with open(args.replay) as f:
            rep = json.load(f)
        acc = Acc()
        mod.replay(rep['witness'], acc)
        if acc.violations:
            for v in acc.violations:
                print('REPRODUCED %s: %s' % (v['mechanism'], v['desc']))
            print('VIOLATION property=%s replay=%s' % (pid, args.replay))
            return 1
        print('replay did not reproduce a violation')
        return 0

    t0 = time.time()
    specs = mod.plan(args.tier, seed)
    for i, s in enumerate(specs):
        s.setdefault('shard', i)
        s.setdefault('nshards', len(specs))
        s.setdefault('tier', args.tier)
        s.setdefault('seed', seed)
    timeout = getattr(mod, 'SHARD_TIMEOUT', {}).get(
        args.tier, 900 if args.tier == 'quick' else 7200)
    if args.inline:
        results, watchdog = [], []
        tmp = tempfile.mkdtemp(dir=env.scratch_root())
        for i, s in enumerate(specs):
            of = os.path.join(tmp, 'o%d.json' % i)
            run_shard_inline(mod, s, of)
            with open(of) as f:
                results.append(json.load(f))
        env.rmscratch(tmp)
    else:
        results, watchdog = run_shards(pid, mod, specs, timeout)

    acc = Acc()
    acc.MAX_SAMPLES = 8
    for r in results:
        acc.merge(r)
    for wd in watchdog:
        acc.inconc(wd)
    if hasattr(mod, 'finalize'):
        mod.finalize(acc, args.tier, seed)

    distinct = len(acc.keys) + acc.nontrivial_disjoint
    # -- inconclusive rules (never folded into "held") ----------------------
    if acc.evals == 0:
        acc.inconc('no case was evaluated')
    if distinct < getattr(mod, 'MIN_NONTRIVIAL', 2):
        acc.inconc('only %d distinct non-trivial cases (need %d)' % (
            distinct, getattr(mod, 'MIN_NONTRIVIAL', 2)))
    for name, least in getattr(mod, 'REQUIRED_COUNTERS', {}).items():
        if acc.counters.get(name, 0) < least:
            acc.inconc('monitor counter %r = %d < %d: the deciding monitor '
                       'was not reached often enough' % (
                           name, acc.counters.get(name, 0), least))

    # -- classify violations -------------------------------------------------
    known = [k for k in load_known() if k.get('property') == pid]
    known_by_mech = {k['mechanism']: k for k in known}
    new, known_hit = [], {}
    seen = set()
    for v in acc.violations:
        if v['mechanism'] in known_by_mech:
            known_hit.setdefault(v['mechanism'], v)
            continue
        sig = (v['mechanism'], h(v['desc']))
        if sig in seen:
            continue
        seen.add(sig)
        new.append(v)
    for mech, v in sorted(known_hit.items()):
        print('KNOWN-FINDING: property=%s %s [%s; %d occurrence(s) this run; '
              'e.g. %s]' % (pid, known_by_mech[mech]['what'], mech,
                            acc._viol_per_mech.get(mech, 1),
                            v['desc'][:200]))
    rc = 0
    replays = []
    if new:
        per = {}
        for v in new:
            per[v['mechanism']] = acc._viol_per_mech.get(v['mechanism'], 1)
        print('violations by mechanism: %s' % json.dumps(per, sort_keys=True))
    # one witness per mechanism first, then more of the same
    firsts, rest, seen_m = [], [], set()
    for v in new:
        (rest if v['mechanism'] in seen_m else firsts).append(v)
        seen_m.add(v['mechanism'])
    new = firsts + rest
    for n, v in enumerate(new[:12]):
        path = write_replay(pid, n, v, args.tier, seed)
        replays.append(path)
        print('  witness: [%s] %s' % (v['mechanism'], v['desc'][:400]))
        print('VIOLATION property=%s replay=%s' % (pid, path))
        rc = 1
    if rc == 0 and acc.inconclusive:
        for r in acc.inconclusive:
            print('INCONCLUSIVE property=%s %s' % (pid, r))
        rc = 2

    # -- evidence -------------------------------------------------------------
    wall = time.time() - t0
    coverage = {
        'evaluations': acc.evals,
        'distinct_nontrivial': distinct,
        'rule': mod.RULE,
        'samples': acc.samples[:8] or ['(none)'],
        'counters': dict(sorted(acc.counters.items())),
        'observed': {k: sorted(v)[:60] for k, v in sorted(acc.sets.items())},
        'observed_counts': {k: len(v) for k, v in sorted(acc.sets.items())},
        'shards': len(specs),
        'shards_reporting': len(results),
        'known_findings_hit': {m: acc._viol_per_mech.get(m, 1)
                               for m in sorted(known_hit)},
        'inconclusive': acc.inconclusive,
        'verdict': {0: 'held on what was observed', 1: 'violated',
                    2: 'inconclusive'}[rc],
    }
    if acc.exhaustive:
        coverage['exhaustive_subspaces'] = acc.exhaustive
        coverage['exhaustive'] = bool(acc.exhaustive) and \
            all(acc.exhaustive.values()) and \
            getattr(mod, 'EXHAUSTIVE_MEANS_ALL', False)
    if acc.notes:
        coverage['notes'] = acc.notes[:10]
    ev = {
        'property_id': pid,
        'tier': args.tier,
        'seed': seed,
        'level': mod.LEVEL,
        'coverage': coverage,
        'assumptions': list(getattr(mod, 'ASSUMPTIONS', [])),
        'wall_s': round(wall, 2),
        'violations': len(new),
    }
    os.makedirs(env.EVIDENCE_DIR, exist_ok=True)
    with open(os.path.join(env.EVIDENCE_DIR, '%s.json' % pid), 'w') as f:
        json.dump(ev, f, indent=1, default=str)
    print('%s %s: %s; %d evaluations, %d distinct non-trivial, %d shard(s), '
          '%.1fs' % (pid, args.tier, coverage['verdict'], acc.evals, distinct,
                     len(specs), wall))
    return rc


if __name__ == '__main__':
    sys.exit(main())
