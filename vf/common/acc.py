"""Accumulator that every shard fills and the driver merges.

Counts are measured, never constants: ``evals`` is bumped once per executed
case, ``nontrivial(key)`` records the abstract identity of a case that is
non-trivial by the check's stated rule (distinct keys are counted after the
merge), ``nontrivial_disjoint`` is for enumerations whose shards partition a
space without repetition (then every enumerated non-trivial cell is distinct
by construction and only its count is kept).
"""
import hashlib
import json


def h(obj):
    s = obj if isinstance(obj, str) else json.dumps(obj, sort_keys=True,
                                                     default=str)
    return hashlib.sha1(s.encode('utf-8', 'backslashreplace')).hexdigest()[:16]


class Acc:
    MAX_SAMPLES = 6
    MAX_VIOLATIONS_PER_MECH = 5

    def __init__(self):
        self.evals = 0
        self.keys = set()
        self.nontrivial_disjoint = 0
        self.samples = []
        self.violations = []
        self._viol_per_mech = {}
        self.counters = {}
        self.sets = {}
        self.inconclusive = []
        self.exhaustive = {}
        self.notes = []

    # -- counting -----------------------------------------------------------
    def nontrivial(self, key):
        self.keys.add(key if isinstance(key, str) and len(key) <= 80
                      else h(key))

    def count(self, name, n=1):
        self.counters[name] = self.counters.get(name, 0) + n

    def seen(self, name, value):
        """distinct values observed under a name (e.g. job outcomes)."""
        self.sets.setdefault(name, set()).add(
            value if isinstance(value, str) else json.dumps(value,
                                                            default=str))

    def sample(self, obj, force=False):
        if force or len(self.samples) < self.MAX_SAMPLES:
            self.samples.append(obj)

    # -- verdicts -----------------------------------------------------------
    def violation(self, mechanism, desc, witness):
        n = self._viol_per_mech.get(mechanism, 0)
        self._viol_per_mech[mechanism] = n + 1
        if n < self.MAX_VIOLATIONS_PER_MECH:
            self.violations.append({'mechanism': mechanism, 'desc': desc,
                                    'witness': witness})

    def inconc(self, reason):
        if reason not in self.inconclusive:
            self.inconclusive.append(reason)

    # -- transport ----------------------------------------------------------
    def dump(self):
        return {
            'evals': self.evals,
            'keys': sorted(self.keys),
            'nontrivial_disjoint': self.nontrivial_disjoint,
            'samples': self.samples,
            'violations': self.violations,
            'viol_per_mech': self._viol_per_mech,
            'counters': self.counters,
            'sets': {k: sorted(v) for k, v in self.sets.items()},
            'inconclusive': self.inconclusive,
            'exhaustive': self.exhaustive,
            'notes': self.notes,
        }

    def merge(self, d):
        self.evals += d['evals']
        self.keys.update(d['keys'])
        self.nontrivial_disjoint += d['nontrivial_disjoint']
        for s in d['samples']:
            self.sample(s)
        for v in d['violations']:
            self.violations.append(v)
        for k, n in d.get('viol_per_mech', {}).items():
            self._viol_per_mech[k] = self._viol_per_mech.get(k, 0) + n
        for k, n in d['counters'].items():
            self.count(k, n)
        for k, vals in d['sets'].items():
            self.sets.setdefault(k, set()).update(vals)
        for r in d['inconclusive']:
            self.inconc(r)
        for k, v in d['exhaustive'].items():
            self.exhaustive[k] = self.exhaustive.get(k, True) and v
        for n in d.get('notes', []):
            if n not in self.notes:
                self.notes.append(n)
