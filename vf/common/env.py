"""Paths, seeds and scratch directories shared by every check."""
import os
import shutil
import tempfile

VERIF_HOME = os.environ.get(
    'VERIF_HOME',
    os.path.dirname(os.path.dirname(os.path.dirname(os.path.abspath(__file__)))))
REPO = os.environ.get('VERIF_REPO', '/repo')
PYTHON = os.environ.get('VERIF_PYTHON', '/venv/bin/python')
EVIDENCE_DIR = os.environ.get('VERIF_EVIDENCE_DIR') or \
    os.path.join(VERIF_HOME, 'evidence')
REPLAY_DIR = os.path.join(EVIDENCE_DIR, 'replays')
KNOWN_FINDINGS = os.path.join(VERIF_HOME, 'known_findings.json')
NCPU = int(os.environ.get('VERIF_JOBS', os.cpu_count() or 4))


def seed():
    try:
        return int(os.environ.get('VERIF_SEED', '0'))
    except ValueError:
        return 0


def scratch_root():
    """tmpfs when there is one; never anything a registered command needs
    afterwards."""
    root = os.environ.get('VERIF_SCRATCH')
    if root and os.path.isdir(root):
        return root
    if os.path.isdir('/dev/shm') and os.access('/dev/shm', os.W_OK):
        return '/dev/shm'
    return tempfile.gettempdir()


def mkscratch(prefix='vf-'):
    return tempfile.mkdtemp(prefix=prefix, dir=scratch_root())


def rmscratch(path):
    shutil.rmtree(path, ignore_errors=True)
