"""C04 - the review gate: real handle_comments + check_approvals on a stub job,
over the whole input space of the quantifier, against a predicate written from
the statement."""
import itertools

from vf.func import stubs
from vf.func.stubs import AUTHOR, PEER1, PEER2, LEAD, ROBOT

ID = 'C04'
LEVEL = 'exploration'
EXHAUSTIVE_MEANS_ALL = False
RULE = ('(system-level companion: sampled cells replayed on real '
        'repositories through put_job/process_task with the same oracle) '
        'every cell of (required peers, required leaders, author approval '
        'on/off, author is a leader) x each of the 5 users in one of 5 review '
        'states x every subset of {bypass_author, bypass_peer, bypass_leader, '
        'approve, unanimity} [thorough: x every assignment of a source (admin '
        'comment, per-author setting, command line) to each bypass for the '
        'configurations with <= 1 required peer, rotating sources elsewhere; '
        'quick: rotating sources and every other user-state vector] is run '
        'through the real '
        'handle_comments + check_approvals; cells are enumerated without '
        'repetition, so each is distinct; non-trivial = the expected outcome '
        'is a refusal, or a pass while some requirement is active (not '
        'bypassed, count > 0, author approval needed, or unanimity)')
ASSUMPTIONS = [
    'pull request, participants and comments are stub objects; settings come '
    'from the real SettingsSchema; the system-level companion '
    '(vf/world/gates_world.py) replays sampled cells on real repositories',
    '"waived" is read as: bypassed or required count 0 (peers, leaders); '
    'disabled or bypassed (author); unanimity not requested',
    'host-inconsistent cells (an approver or change requester that the host '
    'does not list as participant, a commenter that is not a participant) '
    'are run but the unanimity clause is not asserted on them',
]
MIN_NONTRIVIAL = 1000
REQUIRED_COUNTERS = {'expected_pass': 100, 'expected_refusal': 100,
                     'c04w_agree_pass': 10, 'c04w_agree_refuse': 10}
SHARD_TIMEOUT = {'quick': 600, 'thorough': 3600}

STATES = ('absent', 'participant', 'approved', 'changes', 'approved+changes')
BYPASSES = ('bypass_author_approval', 'bypass_peer_approval',
            'bypass_leader_approval')
SOURCES = ('comment', 'per_author', 'cmdline')


def configs(tier):
    out = []
    for author_leader in (False, True):
        nleaders = 2 if author_leader else 1
        for peers in range(0, 4):
            for leaders in range(0, 3):
                if leaders > peers or leaders > nleaders:
                    continue
                for need_author in (False, True):
                    out.append((peers, leaders, need_author, author_leader))
    return out


def plan(tier, seed):
    return [{} for _ in range(16)]


_settings_cache = {}


def get_settings(cfg, author_bypass):
    key = (cfg, author_bypass)
    s = _settings_cache.get(key)
    if s is None:
        peers, leaders, need_author, author_leader = cfg
        over = dict(required_peer_approvals=peers,
                    required_leader_approvals=leaders,
                    need_author_approval=need_author,
                    project_leaders=[LEAD, AUTHOR] if author_leader
                    else [LEAD])
        # another author, listed first, holds every review bypass: only the
        # pull request author's own entry may count
        over['pr_author_options'] = {PEER2: list(BYPASSES),
                                     AUTHOR: list(author_bypass),
                                     PEER1: ['bypass_jira_check']}
        s = _settings_cache[key] = stubs.make_settings(**over)
    return s


def oracle(cfg, states, opts):
    """The statement, clause by clause.  opts: set of option names in effect
    (whatever their source).  Returns (passes, consistent, active)."""
    peers, leaders, need_author, author_leader = cfg
    users = dict(zip(stubs.USERS, states))
    participants = {u for u, s in users.items() if s != 'absent'}
    approvers = {u for u, s in users.items() if s.startswith('approved')}
    requesters = {u for u, s in users.items() if s.endswith('changes')}
    if 'approve' in opts:
        approvers = approvers | {AUTHOR}
    leader_set = {LEAD, AUTHOR} if author_leader else {LEAD}
    b_author = 'bypass_author_approval' in opts
    b_peer = 'bypass_peer_approval' in opts
    b_leader = 'bypass_leader_approval' in opts
    unanimity = 'unanimity' in opts

    author_ok = (not need_author) or b_author or AUTHOR in approvers
    peers_ok = b_peer or len(approvers - {AUTHOR}) >= peers
    nlead = len(approvers & leader_set)
    if AUTHOR in leader_set and AUTHOR not in approvers:
        nlead += 1
    leaders_ok = b_leader or nlead >= leaders
    unanimity_ok = (not unanimity) or \
        (participants - {ROBOT}) <= (approvers - {ROBOT})
    all_waived = ((not need_author or b_author) and
                  (b_peer or peers == 0) and
                  (b_leader or leaders == 0) and not unanimity)
    cr_ok = (not requesters) or all_waived
    active = ((need_author and not b_author) or (peers > 0 and not b_peer) or
              (leaders > 0 and not b_leader) or unanimity)
    return (author_ok and peers_ok and leaders_ok and unanimity_ok and cr_ok,
            (author_ok, peers_ok, leaders_ok, unanimity_ok, cr_ok), active)


def run_cell(cfg, states, mask, sources, acc, gwf, messages):
    """mask: bits 0-2 bypasses, 3 approve, 4 unanimity.  sources: tuple of
    source index per bypass bit (ignored when the bit is off), plus source
    (0 comment / 1 cmdline) for approve and unanimity."""
    opts = set()
    comments = []
    author_bypass = []
    cmdline = []
    commenters = set()
    for bit, name in enumerate(BYPASSES):
        if mask >> bit & 1:
            opts.add(name)
            src = SOURCES[sources[bit]]
            if src == 'comment':
                comments.append(stubs.StubComment(
                    LEAD, '@%s %s' % (ROBOT, name)))
                commenters.add(LEAD)
            elif src == 'per_author':
                author_bypass.append(name)
            else:
                cmdline.append(name)
    if mask >> 3 & 1:
        opts.add('approve')
        if sources[3] == 0:
            comments.append(stubs.StubComment(AUTHOR, '@%s approve' % ROBOT))
            commenters.add(AUTHOR)
        else:
            cmdline.append('approve')
    if mask >> 4 & 1:
        opts.add('unanimity')
        if sources[4] == 0:
            comments.append(stubs.StubComment(PEER1, '/unanimity'))
            commenters.add(PEER1)
        else:
            cmdline.append('unanimity')

    settings = get_settings(cfg, tuple(sorted(author_bypass)))
    stubs.set_cmd_line_options(cmdline)
    pr = stubs.StubPR(author=AUTHOR)
    users = dict(zip(stubs.USERS, states))
    pr.participants = [u for u in stubs.USERS if users[u] != 'absent']
    pr.approvals = [u for u in stubs.USERS if users[u].startswith('approved')]
    pr.change_requests = [u for u in stubs.USERS
                          if users[u].endswith('changes')]
    pr.comments = comments
    job = stubs.make_job(settings, pr)
    gwf.handle_comments(job)
    try:
        gwf.check_approvals(job)
        got = True
    except messages.ApprovalRequired:
        got = False

    acc.evals += 1
    exp, clauses, active = oracle(cfg, states, opts)
    consistent = all(users[u] != 'absent' for u in commenters)
    if not consistent and 'unanimity' in opts:
        # the only clause that depends on who is listed as participant
        others = clauses[0] and clauses[1] and clauses[2] and clauses[4]
        if not others:
            exp = False            # still decidable: another clause fails
        else:
            acc.count('dont_care_host_inconsistent')
            return
    if not exp or active:
        acc.nontrivial_disjoint += 1
    acc.count('expected_pass' if exp else 'expected_refusal')
    if got != exp:
        failing = [n for n, ok in zip(
            ('author', 'peers', 'leaders', 'unanimity', 'change_requests'),
            clauses) if not ok]
        if got and failing == ['change_requests'] and 'approve' in opts \
                and cfg[2] and 'bypass_author_approval' not in opts:
            mech = 'approve-option-hides-change-requests'
        elif (not got and 'approve' in opts and 'unanimity' in opts and
              users[AUTHOR] == 'absent'):
            mech = 'unanimity-equality-rejects-author-approved-by-option'
        elif got:
            mech = 'passes-although-' + '+'.join(failing)
        else:
            mech = 'refuses-although-predicate-true'
        acc.violation(mech, 'check_approvals %s; cfg(peers,leaders,'
                      'need_author,author_is_leader)=%r users=%r options=%r '
                      'failing clauses=%r' % (
                          'returned' if got else 'raised ApprovalRequired',
                          cfg, users, sorted(opts), failing),
                      {'cfg': list(cfg), 'states': list(states),
                       'mask': mask, 'sources': list(sources)})
    elif acc.evals % 200003 == 1:
        acc.sample({'cfg(peers,leaders,need_author,author_is_leader)':
                    list(cfg), 'users': users, 'options': sorted(opts),
                    'sources': [SOURCES[sources[b]] for b in range(3)
                                if mask >> b & 1],
                    'outcome': 'pass' if got else 'ApprovalRequired'})


def source_assignments(mask, tier, rot, cfg=None):
    """All assignments in the thorough tier for the configurations with
    at most one required peer (elsewhere, and in the quick tier, one rotating
    assignment: every (option, source) pair still meets every value of the
    other dimensions)."""
    if tier == 'thorough' and (cfg is None or cfg[0] <= 1):
        doms = []
        for bit in range(3):
            doms.append(range(3) if mask >> bit & 1 else (0,))
        doms.append(range(2) if mask >> 3 & 1 else (0,))
        doms.append(range(2) if mask >> 4 & 1 else (0,))
        return itertools.product(*doms)
    return [((rot) % 3, (rot // 3) % 3, (rot // 9) % 3, (rot // 27) % 2,
             (rot // 54) % 2)]


def run_shard(spec, acc):
    import logging
    logging.disable(logging.CRITICAL)
    from vf.func import fast
    fast.install()
    from bert_e.workflow import gitwaterflow as gwf
    from bert_e import exceptions as messages
    tier, shard, n = spec['tier'], spec['shard'], spec['nshards']
    rot = spec['seed']
    idx = 0
    for cfg in configs(tier):
        for states in itertools.product(STATES, repeat=5):
            idx += 1
            if idx % n != shard:
                continue
            if tier == 'quick' and (idx // n + spec['seed']) % 2:
                continue          # quick: every other user-state vector
            for mask in range(32):
                rot += 1
                for sources in source_assignments(mask, tier, rot, cfg):
                    run_cell(cfg, states, mask, sources, acc, gwf, messages)
    # system-level companion: sampled cells on real repositories
    from vf.world import gates_world
    gates_world.c04_run(spec, acc, 8 if tier == 'quick' else 60)
    acc.exhaustive['configs x 5^5 user states x 2^5 options (%s)'
                   % ('all sources' if tier == 'thorough' else
                      'rotating sources, every other state vector')] = \
        tier == 'thorough'
    acc.count('configs', 0)


def finalize(acc, tier, seed):
    acc.count('configs', len(configs(tier)))


def replay(w, acc):
    if w.get('world'):
        import random
        from vf.world import gates_world, runner
        runner.quiet()
        from vf.common import env
        return gates_world.c04_cell(
            acc, random.Random('c04w-%s-%s' % (env.seed(), w['idx'])),
            w['idx'])
    import logging
    logging.disable(logging.CRITICAL)
    from bert_e.workflow import gitwaterflow as gwf
    from bert_e import exceptions as messages
    run_cell(tuple(w['cfg']), tuple(w['states']), w['mask'],
             tuple(w['sources']), acc, gwf, messages)
