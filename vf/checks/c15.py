"""C15 - reset never silently discards manual work and only touches its own
PR (world harness)."""
import random

from vf.world import oracle, runner
from vf.world.world import World, AUTHOR, PEER1, ROBOT, rec_summary

ID = 'C15'
LEVEL = 'exploration'
RULE = ('1-3 pull requests with integration branches on 2-3 targets; then a '
        'random permutation of: amend / rebase / extend / rewind the source, '
        'move the destination by merging another PR, 0-2 manual commits on '
        'each integration branch (plain commit, or a --no-ff merge commit as '
        'the conflict message instructs), evaluations in between; then reset '
        'or force_reset is requested and evaluated.  The harness knows the '
        'manual commits it made; one QUALIFIES when it is not by the robot, '
        'is reachable from the w/ tip and not from the destination, and its '
        'first parent is neither in the destination nor in any version the '
        'source ever had.  Asserted: qualifying work + reset => '
        'LossyResetWarning and nothing changes; always: refs changed are a '
        'subset of that PR\'s w/ names, declined PRs a subset of its '
        'integration PRs; the next evaluation re-creates the integration '
        'branches.  distinct = (layout, mode, command, kinds of manual work, '
        'source rewrites, status)')
ASSUMPTIONS = [
    'mock host + real git + real Bert-E; sampled histories',
    'a manual commit stacked directly on a source commit is a don\'t-care '
    '(indistinguishable from an earlier source version)',
    'only the refusing direction is asserted: refusing without qualifying '
    'work is not a violation',
]
MIN_NONTRIVIAL = 10
REQUIRED_COUNTERS = {'c15_resets_evaluated': 40,
                     'c15_resets_with_qualifying_work': 10,
                     'c15_resets_without_manual_work': 10,
                     'c15_second_command_in_a_row': 3}
SHARD_TIMEOUT = {'quick': 900, 'thorough': 5400}


def plan(tier, seed):
    return [{} for _ in range(16)]


def w_names(refs, src):
    return sorted(n for n in refs if n.startswith('w/') and
                  n.endswith('/' + src))


def qualifying(world, manual, src, refs):
    """manual: [{'branch', 'sha', 'kind'}] made by the harness"""
    out = []
    src_tips = world.tip_history.get(src, [])
    for m in manual:
        tip = refs.get(m['branch'])
        if not tip or not world.is_ancestor(m['sha'], tip):
            continue
        ver = m['branch'].split('/')[1]
        dst = [n for n in refs if oracle.is_dest(n) and
               oracle.version_of(n) == ver]
        if not dst:
            continue
        dtip = refs[dst[0]]
        if world.is_ancestor(m['sha'], dtip):
            continue
        parent = world.rev(m['sha'] + '^1')
        if world.is_ancestor(parent, dtip):
            m = dict(m, dont_care='first parent is in the destination')
        elif any(world.is_ancestor(parent, t) for t in src_tips):
            m = dict(m, dont_care='first parent is in a source version')
        out.append(m)
    return out


def run_case(acc, seed, idx):
    rng = random.Random('c15-%s-%s' % (seed, idx))
    layout = rng.choice(['d2', 'd3', 's1d2', 'd1M1d2'])
    mode = rng.choice(['queue', 'noqueue', 'skipqueue'])
    child_prs = rng.random() < 0.5
    world = World(layout=layout, queue_mode=mode, seed=rng.getrandbits(30),
                  settings={'always_create_integration_pull_requests':
                            child_prs})
    w = world
    try:
        chain = list(w.layout['chain'])
        if rng.random() < 0.3:
            # a development branch that was just opened from the previous
            # one: two consecutive destinations on the SAME commit, so the
            # later integration branch is fast-forwarded onto the robot's
            # merge commit of the earlier one
            major = int(chain[-1].split('/')[1].split('.')[0])
            new = 'development/%d.0' % (major + 1)
            if w.do('create_branch_by_hand', branch=new, base=chain[-1]):
                chain.append(new)
                acc.count('c15_cases_with_two_destinations_on_one_commit')
        nprs = rng.choice([1, 2, 2, 3])
        prs = []
        for i in range(nprs):
            # similar names on purpose: bugfix/TEST-1 vs bugfix/TEST-10
            src = ['bugfix/TEST-1', 'bugfix/TEST-10', 'feature/TEST-1'][i]
            dst = chain[0] if i == 0 else rng.choice(chain[:-1])
            pid = w.do('open_pr', src=src, dst=dst)
            w.do('push_commit', branch=src)
            prs.append({'id': pid, 'src': src, 'dst': dst})
            w.run('pr', pid)
        p = prs[0]
        manual = []
        rewrites = []
        moves = ['amend', 'rebase', 'extend', 'rewind', 'move_dst',
                 'manual', 'manual', 'manual_merge', 'eval', 'eval']
        rng.shuffle(moves)
        moves = moves[:rng.randrange(1, 7)]
        if rng.random() < 0.35:
            # manual work buried under later robot merges: manual commit,
            # then the source or the destination moves, then an evaluation
            # puts robot merge commits on top of it
            moves = [rng.choice(['manual', 'manual_merge']),
                     rng.choice(['extend', 'move_dst']), 'eval'] + \
                moves[:rng.randrange(0, 3)]
        forced_fault = idx % 6 == 0
        if forced_fault:
            # directed: manual work, then the command is evaluated by a job
            # whose refresh of the clone cache / remote fails
            moves = ['eval', rng.choice(['manual', 'manual_merge'])] + \
                moves[:1]
        for mv in moves:
            heads = w.refs()[0]
            if mv == 'amend':
                w.do('amend', branch=p['src'])
                rewrites.append(mv)
            elif mv == 'rebase':
                w.do('rebase', branch=p['src'], onto=p['dst'])
                rewrites.append(mv)
            elif mv == 'extend':
                w.do('push_commit', branch=p['src'])
                rewrites.append(mv)
            elif mv == 'rewind':
                w.do('rewind', branch=p['src'])
                rewrites.append(mv)
            elif mv == 'move_dst':
                w.do('push_commit', branch=rng.choice(chain[1:]),
                     user=PEER1)
            elif mv in ('manual', 'manual_merge'):
                ws = w_names(heads, p['src'])
                if not ws:
                    continue
                b = rng.choice(ws)
                if mv == 'manual':
                    ok = w.do('manual_commit', branch=b)
                elif rng.random() < 0.5:
                    # conflict-resolution style: the source moved on and the
                    # user merges it into the integration branch by hand
                    w.do('push_commit', branch=p['src'])
                    rewrites.append('extend')
                    ok = w.do('manual_merge', branch=b, other=p['src'])
                else:
                    # a side branch merged into the integration branch
                    side = 'user/side-%d' % len(manual)
                    w._sync_actor()
                    w.git('checkout', '-q', '-B', side, 'origin/' + b)
                    w._write({'side_%d.txt' % len(manual): 'x\n'})
                    w.git('add', '-A')
                    w.git('commit', '-q', '-m', 'side work', user=AUTHOR)
                    w.git('push', '-q', '-f', 'origin', side)
                    ok = w.do('manual_merge', branch=b, other=side)
                if ok:
                    manual.append({'branch': b, 'kind': mv,
                                   'sha': w.rev('refs/heads/' + b)})
            else:
                w.run('pr', p['id'])
        command = rng.choice(['reset', 'reset', 'force_reset'])
        if forced_fault:
            command = 'reset'

        w.do('comment', pr=p['id'], user=rng.choice([AUTHOR, PEER1]),
             text=rng.choice(['/%s', '@robot %s']) % command)
        before = w.snapshot()
        qual = qualifying(w, manual, p['src'], before.refs)
        strict = [m for m in qual if 'dont_care' not in m]
        fault = None
        if forced_fault or rng.random() < 0.25:
            # one git command of the evaluation that executes the command
            # fails (refresh of the mirror cache, fetch of the remote, ...)
            fault = rng.choice(['fetch --prune', 'remote update',
                                'ls-remote'])
            w.shim.set(fail_match=fault)
        rec = w.run('pr', p['id'])
        if fault:
            w.shim.clear()
            acc.count('c15_resets_with_a_failing_git_command')
            acc.seen('c15_fault_outcomes', '%s->%s' % (fault,
                                                       rec['status']))
        acc.evals += 1
        acc.count('c15_resets_evaluated')
        acc.count('jobs')
        st = rec['status']
        acc.seen('c15_reset_outcomes', '%s:%s' % (command, st))
        a, b = rec['after'], rec['before']
        kinds = sorted({m['kind'] for m in strict})
        acc.nontrivial('%s|%s|%s|%s|%s|%s' % (
            layout, mode, command, ','.join(kinds) or 'none',
            ','.join(sorted(set(rewrites))) or 'norewrite', st))
        wit = {'seed': seed, 'idx': idx, 'config': w.config(),
               'history': w.history, 'job': rec_summary(rec),
               'manual': manual, 'qualifying': qual}
        changed = {n for n in set(a.refs) | set(b.refs)
                   if a.refs.get(n) != b.refs.get(n)}
        mine = set(w_names(b.refs, p['src'])) | set(w_names(a.refs,
                                                           p['src']))
        executed = st in ('ResetComplete', 'LossyResetWarning')
        if not executed:
            acc.count('c15_command_not_reached:' + st)
            if not fault:
                # nothing was injected and the command comment is the newest
                # comment of an open, handled pull request: it has to be
                # carried out (both commands delete the integration data,
                # "the next evaluation rebuilds the integration branches")
                acc.violation(
                    'reset-command-not-executed',
                    '%s requested on PR #%d, evaluation ended %s: the '
                    'command was not carried out' % (command, p['id'], st),
                    wit)
        if strict:
            acc.count('c15_resets_with_qualifying_work')
        elif not manual:
            acc.count('c15_resets_without_manual_work')
        if executed and strict and command == 'reset':
            if st != 'LossyResetWarning' or changed:
                merge = any(m['kind'] == 'manual_merge' for m in strict) \
                    and not any(m['kind'] == 'manual' for m in strict)
                acc.violation(
                    'reset-discards-manual-%s' % (
                        'merge-commit' if merge else 'work'),
                    'reset on PR #%d -> %s with refs changed %s although '
                    'integration branches hold manual commits %s'
                    % (p['id'], st, sorted(changed),
                       [(m['branch'], m['kind'], m['sha'][:10])
                        for m in strict]), wit)
        if executed:
            foreign = sorted(changed - mine)
            if foreign:
                acc.violation('reset-changes-foreign-ref',
                              '%s on PR #%d changed %s' % (command, p['id'],
                                                           foreign), wit)
            for q in a.prs:
                bq = b.pr(q['id'])
                if bq and bq['state'] != q['state'] and \
                        q['state'] == 'DECLINED':
                    if not (q['author'] == ROBOT and
                            q['src'] in w_names(b.refs, p['src'])):
                        acc.violation(
                            'reset-declines-foreign-pull-request',
                            '%s on PR #%d declined PR #%d (%s -> %s)' % (
                                command, p['id'], q['id'], q['src'],
                                q['dst']), wit)
        if st == 'ResetComplete':
            acc.count('c15_reset_complete')
            if w_names(a.refs, p['src']):
                acc.violation('reset-complete-leaves-integration-branches',
                              'after %s: %s remain' % (
                                  command, w_names(a.refs, p['src'])), wit)
            if idx % 3 == 1:
                # the command once more, while the robot's latest comment is
                # still its answer to the first one
                w.do('comment', pr=p['id'], user=AUTHOR, text='/' + command)
                recb = w.run('pr', p['id'])
                acc.count('jobs')
                acc.count('c15_second_command_in_a_row')
                acc.seen('c15_second_command_outcomes', recb['status'])
                if recb['status'] not in ('ResetComplete',
                                          'LossyResetWarning'):
                    acc.violation(
                        'reset-command-not-executed',
                        'second %s in a row on PR #%d, evaluation ended %s'
                        % (command, p['id'], recb['status']), wit)
            rec2 = w.run('pr', p['id'])
            acc.count('jobs')
            if rec2['status'] in ('ResetComplete', 'LossyResetWarning'):
                acc.violation(
                    'reset-executed-again-without-a-new-command',
                    'after %s was answered, the next evaluation of PR #%d '
                    'ended %s again: the integration branches are never '
                    'rebuilt' % (command, p['id'], rec2['status']), wit)
            tgts = oracle.targets(list(rec2['after'].refs), p['dst'])
            want = [oracle.wname(oracle.version_of(t), p['src'])
                    for t in tgts[1:]]
            have = w_names(rec2['after'].refs, p['src'])
            acc.seen('c15_status_after_reset', rec2['status'])
            if rec2['status'] in ('BuildNotStarted', 'BuildInProgress',
                                  'Queued', 'ApprovalRequired',
                                  'BuildFailed') and sorted(want) != have:
                acc.violation(
                    'integration-branches-not-rebuilt-after-reset',
                    'evaluation after %s -> %s but w/ branches are %s, '
                    'expected %s' % (command, rec2['status'], have, want),
                    wit)
        if len(acc.samples) < 5:
            acc.sample({'config': w.config(), 'command': command,
                        'manual_commits': [(m['branch'], m['kind'])
                                           for m in manual],
                        'qualifying': len(strict), 'source_rewrites': rewrites,
                        'status': st, 'refs_changed': sorted(changed)})
    finally:
        world.close()


def run_shard(spec, acc):
    runner.quiet()
    n = 7 if spec['tier'] == 'quick' else 160
    for i in range(n):
        idx = spec['shard'] + i * spec['nshards']
        try:
            run_case(acc, spec['seed'], idx)
        except Exception as err:
            acc.count('harness_errors')
            acc.notes.append('case %d: %s: %s' % (idx, type(err).__name__,
                                                  str(err)[:300]))


def finalize(acc, tier, seed):
    if acc.counters.get('harness_errors', 0) > 6:
        acc.inconc('%d harness errors' % acc.counters['harness_errors'])


def replay(witness, acc):
    runner.quiet()
    run_case(acc, witness['seed'], witness['idx'])
