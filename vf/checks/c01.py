"""C01 - forward-port inclusion is an invariant of every job (world harness)."""
from vf.world import gen, monitors, runner

ID = 'C01'
LEVEL = 'exploration'
RULE = ('random + directed histories (open / push / amend / rebase / review / '
        'comment / CI report on current and stale tips / PR, child-PR and '
        'commit events / the five admin jobs / decline) on real repositories; '
        'after EVERY job the harness runs git merge-base --is-ancestor on the '
        'bare repository for every (stabilization in its development branch, '
        'development branch in the next one) pair, before and after; '
        'non-trivial = a job that changed at least one destination ref while '
        'the invariant held before; distinct = (layout, queue mode, octopus, '
        'job kind, job status, kinds of destination refs changed)')
ASSUMPTIONS = [
    'mock git host (bert_e/git_host/mock.py) backed by a real bare git '
    'repository; real BertE.put_job/process_task; real git',
    'histories are sampled, not enumerated: at most 3 pull requests, '
    '10-25 jobs per history',
]
MIN_NONTRIVIAL = 8
REQUIRED_COUNTERS = {'c01_checked_movements': 30, 'histories': 16}
SHARD_TIMEOUT = {'quick': 900, 'thorough': 5400}

LAYOUTS = ['d1', 'd2', 's1d1', 's1d2', 'd1M1d2', 's2d2', 'd4', 'h1d2']
MONITORS = [monitors.c01_inclusion]


def configs():
    out = []
    for layout in LAYOUTS:
        for qm in ('queue', 'noqueue', 'skipqueue'):
            for octo in ((), ('no_octopus',)):
                out.append({'layout': layout, 'queue_mode': qm,
                            'cmd_line_options': list(octo)})
    # a few worlds with a commit-diff limit and integration PRs
    out.append({'layout': 'd2', 'queue_mode': 'queue',
                'settings': {'max_commit_diff': 2}})
    out.append({'layout': 's1d2', 'queue_mode': 'noqueue',
                'settings': {'max_commit_diff': 3,
                             'always_create_integration_pull_requests':
                             True}})
    return out


def op_two_on_stabilization(g):
    """two PRs forked from the same stabilization tip, merged one after the
    other: the second lands on a stabilization branch that moved on (real
    merge commit on the FIRST target, which every later target must take)"""
    stabs = [d for d in g.dests() if d.startswith('stabilization/')]
    if not stabs:
        return gen.OPENERS['two_prs_same_base'](g)
    a = g.new_pr(stabs[0])
    b = g.new_pr(stabs[0])
    g.m_forward(a, 6)
    g.m_forward(b, 6)


def plan(tier, seed):
    return [{} for _ in range(16)]


def run_shard(spec, acc):
    prof = gen.profile(p_green=0.9, p_forward=0.6,
                       w={'hand_branch': 0.6, 'push_to_destination': 0.3})
    openers = [None, gen.OPENERS['two_prs_same_base'],
               gen.OPENERS['stab_between_devs'], None,
               gen.OPENERS['dest_moves_while_open'],
               gen.OPENERS['three_queued'], gen.OPENERS['backport'],
               gen.OPENERS['backport'], gen.OPENERS['partial_merge'],
               gen.OPENERS['admin_branches'], gen.OPENERS['batch_merge'],
               gen.OPENERS['queue_conflict'],
               gen.OPENERS['conflict_resolved'],
               gen.OPENERS['hand_branch_then_merge'],
               gen.OPENERS['hand_branch_then_merge']]
    if spec['tier'] == 'quick':
        n_hist, jobs, cap = 9, 12, 600
    else:
        n_hist, jobs, cap = 110, 22, 4800
    # the conflict-resolution flow needs the direct merge path to exercise
    # the merge helpers' fallbacks: every multi-destination layout, both
    # merge strategies
    directed = [({'layout': layout, 'queue_mode': qm,
                  'cmd_line_options': list(octo)},
                 gen.OPENERS['conflict_resolved'])
                for layout in ('d2', 's1d2', 'd1M1d2', 's2d2', 'd4', 'd3')
                for qm in ('noqueue', 'queue')
                for octo in ((), ('no_octopus',))]
    if spec['tier'] == 'quick':
        directed = [d for d in directed if d[0]['queue_mode'] == 'noqueue' or
                    d[0]['layout'] in ('d2', 'd3')]
    directed += [({'layout': layout, 'queue_mode': qm,
                   'cmd_line_options': list(octo)}, op_two_on_stabilization)
                 for layout in ('s1d2', 's2d2')
                 for qm in ('noqueue', 'skipqueue')
                 for octo in ((), ('no_octopus',))]
    runner.run_histories(spec, acc, configs(), prof, MONITORS, n_hist, jobs,
                         openers=openers, soft_cap_s=cap, directed=directed)


def finalize(acc, tier, seed):
    runner.harness_health(acc)


def replay(witness, acc):
    runner.replay_world(witness, acc, MONITORS)
