"""C02 - all targets or none across crashes and rejected refs (fault
enumeration around explored jobs of the world harness)."""
import random

from vf.world import faults, gen, runner, scenarios
from vf.world.world import World

ID = 'C02'
LEVEL = 'fault_enumeration'
RULE = ('for each explored job (directed scenarios: first evaluation, queue '
        'entry / direct merge, queue merge of 1 and 2 PRs, integration-branch '
        'update, decline, reset, conflict, and the admin jobs; plus jobs '
        'taken at random states of generated histories in the thorough tier) '
        'a reference child records the ordered remote-mutating operations '
        '(git pushes seen by the shim, comment / PR-creation / decline / '
        'status calls on the host) and the refs each push changes; then ONE '
        'CHILD PER BOUNDARY (every later operation fails) and ONE CHILD PER '
        '(push, changed ref) with the server-side update hook refusing that '
        'ref; each child observes all-or-none per PR over every tip the '
        'source ever had + the C01 invariant at the interrupted state and '
        'after every recovery job, recovers on a fresh instance (event '
        're-delivered, rebuild-queues if reported out of order), drains, and '
        'compares destination tree ids with the drained reference; '
        'non-trivial = placement whose operation was actually reached; '
        'distinct = (job kind, fault mode, operation / ref kind)')
ASSUMPTIONS = [
    'a crash is modelled as: every later remote-mutating operation of the '
    'job fails and the instance is thrown away (mirror cache kept)',
    'conflict-free pull requests (each owns its files) so that drained '
    'content does not depend on merge order',
    'the documented queue reset is the rebuild-queues job',
]
MIN_NONTRIVIAL = 8
REQUIRED_COUNTERS = {'c02_explored_jobs': 16, 'c02_crash_placements': 40,
                     'c02_reject_placements': 40}
SHARD_TIMEOUT = {'quick': 900, 'thorough': 5400}

LAYOUTS = ['d2', 's1d2', 'd1M1d2', 'd3', 'd4', 's1d3', 'd5']
SCEN = ['first_eval', 'queue_entry', 'queue_merge', 'second_entry',
        'two_merge', 'source_moved', 'decline', 'reset', 'rebuild',
        'delete_queues', 'force_merge', 'create_branch', 'create_stab',
        'delete_branch', 'conflict_later', 'delete_branch_with_queue',
        'two_merge_narrow_first']


def combos(seed):
    out = []
    for sc in SCEN:
        for layout in LAYOUTS:
            for qm in ('queue', 'noqueue', 'skipqueue'):
                if qm == 'noqueue' and sc in (
                        'queue_merge', 'second_entry', 'two_merge', 'rebuild',
                        'two_merge_narrow_first',
                        'delete_queues', 'force_merge', 'create_branch'):
                    continue
                for child_prs in (False, True):
                    for octo in ((), ('no_octopus',)):
                        out.append((sc, layout, qm, child_prs, octo))
    rng = random.Random('c02-%s' % seed)
    rng.shuffle(out)
    # make sure every scenario comes early: stable sort by occurrence index
    seen, ranked = {}, []
    for c in out:
        seen[c[0]] = seen.get(c[0], 0) + 1
        ranked.append((seen[c[0]], c))
    ranked.sort(key=lambda x: x[0])
    rest = [c for _, c in ranked]
    # landing jobs on long cascades (4-5 targets) first: that is where one
    # logical update spans most refs
    first = []
    for sc, qms in (('queue_merge', ('queue',)),
                    ('two_merge', ('queue', 'skipqueue')),
                    ('queue_entry', ('noqueue', 'skipqueue', 'queue')),
                    ('force_merge', ('queue',))):
        for layout in ('d4', 's1d3', 'd5'):
            for qm in qms:
                first.append((sc, layout, qm, rng.random() < 0.5,
                              rng.choice([(), ('no_octopus',)])))
    rng.shuffle(first)
    # a batch whose first pull request has the narrower target set: always
    must = [('two_merge_narrow_first', 'd3', 'queue', False, ()),
            ('two_merge_narrow_first', 'd4', 'queue', True, ())]
    head = must + first[:14]
    return head + [c for c in rest if c not in head]


def plan(tier, seed):
    return [{} for _ in range(16)]


def explore_combo(c, acc):
    sc, layout, qm, child_prs, octo = c
    world = None
    try:
        world, label, event = scenarios.build(
            sc, layout=layout, queue_mode=qm,
            settings={'always_create_integration_pull_requests': child_prs},
            cmd_line_options=list(octo))
        faults.explore_c02(world, event, acc, label)
    finally:
        if world is not None:
            world.close()


def explore_random_state(spec, i, acc):
    rng = random.Random('c02r-%s-%s-%s' % (spec['seed'], spec['shard'], i))
    layout = rng.choice(LAYOUTS)
    qm = rng.choice(['queue', 'queue', 'skipqueue', 'noqueue'])
    world = World(layout=layout, queue_mode=qm, seed=rng.getrandbits(30))
    try:
        g = gen.Gen(world, rng, gen.profile(
            p_green=0.9, p_conflict=0.0, p_forward=0.6,
            w={'admin': 0.3, 'w_commit': 0, 'amend': 0, 'rebase': 0,
               'decline': 0.2}))
        g.walk(rng.randrange(3, 10))
        snap = world.snapshot()
        prs = [p for p in snap.prs if p['state'] == 'OPEN']
        tips = g.interesting_tips()
        if prs and (rng.random() < 0.6 or not tips):
            event = ('pr', rng.choice(prs)['id'], {})
        elif tips:
            event = ('commit', rng.choice(tips), {})
        else:
            return
        faults.explore_c02(world, event, acc, 'random-state')
    finally:
        world.close()


def run_shard(spec, acc):
    runner.quiet()
    import os
    os.environ['VERIF_TIER_HINT'] = spec['tier']
    cs = combos(spec['seed'])
    shard, n = spec['shard'], spec['nshards']
    mine = cs[shard::n]
    count = 3 if spec['tier'] == 'quick' else 24
    for c in mine[:count]:
        try:
            explore_combo(c, acc)
        except Exception as err:
            acc.count('harness_errors')
            acc.notes.append('%r: %s: %s' % (c, type(err).__name__,
                                             str(err)[:300]))
    if spec['tier'] == 'thorough':
        for i in range(16):
            try:
                explore_random_state(spec, i, acc)
            except Exception as err:
                acc.count('harness_errors')
                acc.notes.append('random state %d: %s: %s' % (
                    i, type(err).__name__, str(err)[:300]))


def finalize(acc, tier, seed):
    if acc.counters.get('harness_errors', 0) > 4:
        acc.inconc('%d harness errors' % acc.counters['harness_errors'])
    if acc.counters.get('c02_children_inconclusive', 0) > \
            0.1 * max(1, acc.evals):
        acc.inconc('too many inconclusive children')


def replay(witness, acc):
    runner.quiet()
    cfg = witness['config']
    world = World(layout=cfg['layout'], queue_mode=cfg['queue_mode'],
                  seed=cfg.get('seed', 0), settings=cfg.get('settings'),
                  cmd_line_options=cfg.get('cmd_line_options', ()))
    try:
        for step in witness['history']:
            world.apply(step)
            world.drain()
        ev = witness['event']
        faults.explore_c02(world, (ev[0], ev[1], ev[2]), acc, 'replay')
    finally:
        world.close()
