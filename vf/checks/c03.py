"""C03 - with queues on, destinations only advance to CI-validated commits."""
from vf.world import gen, monitors, runner

ID = 'C03'
LEVEL = 'exploration'
RULE = ('queue-mode histories (with and without skip_queue_when_not_needed, '
        'octopus and no_octopus) with hostile CI: any of the five states on '
        'any current or stale source / w / q tip, reports in any order; at '
        'every movement of an existing destination ref the new tip is looked '
        'up in the host status table; exemptions decided from harness '
        'knowledge only (force-merge job; direct merge of PRs whose build '
        'check an admin / per-author setting / command line waived; no build '
        'key); non-trivial = a destination advance; distinct = (layout, mode, '
        'octopus, merge kind, exemption, #PRs merged, destination kind)')
ASSUMPTIONS = [
    'mock git host + real bare git repository + real Bert-E',
    'sampled histories with at most 3 pull requests',
    'a queue merge is never exempted by a bypass option: the queue commit '
    'itself must be green',
]
MIN_NONTRIVIAL = 6
REQUIRED_COUNTERS = {'c03_advances_checked': 30, 'histories': 16}
SHARD_TIMEOUT = {'quick': 900, 'thorough': 5400}
LAYOUTS = ['d1', 'd2', 's1d1', 's1d2', 'd1M1d2', 's2d2', 'd3', 'h1d2',
           'h1s1d2', 'd1s2d2', 'd1s2d2', 's2d2', 'd4', 'd3']
MONITORS = [monitors.c03_green_destinations]


def configs():
    out = []
    for layout in LAYOUTS:
        for qm in ('queue', 'skipqueue'):
            for octo in ((), ('no_octopus',)):
                out.append({'layout': layout, 'queue_mode': qm,
                            'cmd_line_options': list(octo)})
    return out


def plan(tier, seed):
    return [{} for _ in range(16)]


def run_shard(spec, acc):
    prof = gen.profile(p_green=0.7, p_forward=0.6,
                       w={'status': 10, 'stale_status': 4, 'commit_event': 8,
                          'admin': 0.6, 'push_to_destination': 0.8,
                          'push_tag': 0.5})
    openers = [None, gen.OPENERS['two_prs_same_base'],
               gen.OPENERS['stab_between_devs'], gen.OPENERS['three_queued'],
               gen.OPENERS['three_queued'],
               gen.OPENERS['dest_moves_while_open'],
               gen.OPENERS['stab_paths'], gen.OPENERS['stab_paths'],
               gen.OPENERS['manual_on_middle_w'],
               gen.OPENERS['manual_on_middle_w'],
               gen.OPENERS['batch_merge'], gen.OPENERS['queue_conflict'],
               gen.OPENERS['dest_pushed_while_queued'],
               gen.OPENERS['dest_pushed_while_queued']]
    if spec['tier'] == 'quick':
        n_hist, jobs, cap = 9, 12, 600
    else:
        n_hist, jobs, cap = 110, 22, 4800
    # hotfix destinations: their queues are on no merge path of a queue
    # evaluation; a release in the middle opens a second queue
    directed = [({'layout': layout, 'queue_mode': 'queue',
                  'cmd_line_options': []}, gen.OPENERS[op])
                for layout in ('h1d2', 'h1s1d2')
                for op in ('hotfix_two_queues', 'dest_pushed_while_queued',
                           'dest_pushed_while_queued',
                           'dest_pushed_while_queued')]
    runner.run_histories(spec, acc, configs(), prof, MONITORS, n_hist, jobs,
                         openers=openers, soft_cap_s=cap, directed=directed)


def finalize(acc, tier, seed):
    runner.harness_health(acc)


def replay(witness, acc):
    runner.replay_world(witness, acc, MONITORS)
