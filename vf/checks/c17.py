"""C17 - CI results are aggregated soundly and a green verdict is never
downgraded.

Part 1 (aggregation): the real ``github.AggregatedWorkflowRuns(...).state`` on
every ordered list of workflow runs of the quantifier, against a necessary
condition written from the statement ("SUCCESSFUL only if ...").

Part 2 (sticky green cache): the real ``Repository.get_build_status`` of the
Bitbucket and GitHub clients (their HTTP answered by a scripted transport
adapter standing for the host) interleaved with status webhooks delivered to
the real Flask routes ``/bitbucket`` and ``/github``, against a small
reference model of the statement; the LRU size bound is a class invariant
checked after every ``LRUCache.get/set``.
"""
import itertools
import json
import random

ID = 'C17'
LEVEL = 'exploration'
EXHAUSTIVE_MEANS_ALL = False      # see RULE: length-5 histories are partly sampled
MIN_NONTRIVIAL = 1000
REQUIRED_COUNTERS = {
    'agg_state_successful_checked': 1000,   # real state SUCCESSFUL, oracle ran
    'agg_successful_forbidden_by_oracle': 1000,  # oracle forbids; real agreed
    'cache_sticky_green_asserted': 300,     # seen green, host says otherwise
    'cache_host_answer_asserted': 300,      # never green: must equal the host
    'cache_evicted_answer_asserted': 30,    # size 1, certainly evicted
    'lru_invariant_checks': 10000,
    'snapshot_crosscheck_sequences': 16,
    'multi_workflow_webhook_cells': 80,
    'recency_polls_that_must_stay_green': 100,  # small caches, LRU order
}
SHARD_TIMEOUT = {'quick': 900, 'thorough': 3600}

RULE = (
    'PART 1: every ordered list of <= 4 (quick: <= 3) workflow runs over '
    'event {push, pull_request, workflow_dispatch} x (status, conclusion) in '
    '{completed/success, completed/failure, completed/cancelled, '
    'in_progress/none, queued/none, pending/none} x workflow id {1,2} x head '
    'branch {A,B} (72 run shapes; 72^0+..+72^4 = 27 252 433 lists, quick '
    '378 505) goes through the real AggregatedWorkflowRuns(...).state; lists '
    'are enumerated without repetition (each ordered list is one distinct '
    'case); non-trivial = the real state is SUCCESSFUL, or the oracle '
    'forbids SUCCESSFUL while at least one non-dispatch run concluded with '
    'success.  Lists of <= 2 runs are built exactly like the unit test '
    '(validating constructor on the raw JSON), longer ones like '
    'AggregatedWorkflowRuns.load does (schema-loaded run dicts, '
    '_validate=False).  An extra sub-space OUTSIDE the quantifier (3 '
    'workflow ids, lists of 3 runs) is run and only reported in counters '
    'and notes.  '
    'PART 2: a history is a sequence of operations over {status webhook, '
    'poll} x 2 commits x 2 build keys x 4 reported states (32 operations); '
    'for each host (bitbucket: keys pre-merge / nightly; github: status '
    'context pre-merge and the github_actions key fed by workflow runs and '
    'check_suite events) and each cache size in {1, 1000}: EXHAUSTIVE '
    'sub-spaces (depth-first over the prefix tree with the real cache '
    'snapshotted / restored between siblings; every prefix is one distinct '
    'history): thorough = all histories of <= 4 operations over the full '
    'alphabet (1 082 400 per host and size) + all histories of exactly 5 '
    'operations that end with a poll over the reduced alphabet reported '
    'state in {SUCCESSFUL, FAILED} (16^4 x 8 = 524 288 per host and size); '
    'quick = all histories of <= 3 operations over the full alphabet '
    '(33 824) + all histories of exactly 4 ending with a poll over the '
    'reduced alphabet (32 768).  SAMPLED with the seed, run from a fresh '
    'state without snapshots: histories of exactly 5 (quick: 4) operations '
    'over the full alphabet (thorough 10 000, quick 4 000 per host and '
    'size; distinct ones counted by their operation list).  Histories of 5 '
    'operations over the full alphabet are NOT completed (33.5 M per host '
    'and size at about 1 ms per operation).  '
    'non-trivial history = its last operation is a poll whose expected '
    'answer is decided and could be wrong: seen green while the host now '
    'reports something else, or never green / certainly evicted while an '
    'earlier report for the same (commit, key) differed or an eviction '
    'happened.')
ASSUMPTIONS = [
    'aggregation oracle = necessary condition only (the statement says '
    '"only if"): drop workflow_dispatch runs, keep one best run per workflow '
    'id (success > not concluded > failure > cancelled, ANY tie-break), '
    'SUCCESSFUL allowed only if some head branch carries at least one kept '
    'run and all kept runs on it concluded success; a weaker variant with no '
    'ranking among non-success runs is computed too and decides the '
    'mechanism key (successful-without-all-green-branch vs '
    'successful-by-keeping-a-worse-run)',
    'marshmallow validation is per run, so validating each of the 72 run '
    'shapes once (and every list of <= 2 through the validating '
    'constructor) stands for validating every list',
    'cache model: eviction is asserted only in the two certain regimes: '
    'size 1000 > 2 commits: never evicted; size 1: once ANOTHER commit was '
    'stored or answered SUCCESSFUL under the SAME key that one is the most '
    'recently used entry, so the first is certainly evicted; any other '
    'operation on another entry makes retention unknown (don\'t-care: '
    'SUCCESSFUL or the host\'s current report are both accepted)',
    'a GitHub status poll returns every context of the commit: a green '
    'status Bert-E could see that way without being asked for it counts as '
    '"maybe seen" (don\'t-care between SUCCESSFUL and the host\'s report)',
    'host vocabulary -> Bert-E vocabulary: success SUCCESSFUL; failure '
    'FAILED; pending / in_progress INPROGRESS; no status NOTSTARTED; GitHub '
    '"error" status and a cancelled workflow run: FAILED or STOPPED accepted',
    'depth-first enumeration restores the real BUILD_STATUS_CACHE contents '
    'between siblings; a sample of DFS histories is re-run from a fresh '
    'state and must give the same answers (else inconclusive)',
    'webhook events reach the real /bitbucket and /github routes through '
    'the Flask test client; after the first delivery of each distinct event '
    '(client.post) the WSGI environ is reused (client.run_wsgi_app) to skip '
    'environ building',
    'the job queue filled by the webhook routes is emptied after each event '
    '(a worker consuming jobs); the jobs themselves are not run',
]

# ===========================================================================
# Part 1 - aggregation
# ===========================================================================
EVENTS = ('push', 'pull_request', 'workflow_dispatch')
STATUS_CONCLUSION = (('completed', 'success'), ('completed', 'failure'),
                     ('completed', 'cancelled'), ('in_progress', None),
                     ('queued', None), ('pending', None))
WORKFLOWS = (1, 2)
BRANCHES = ('A', 'B')
SHA = 'd6fde92930d4715a2b49857d24b940956b26d2d3'

# (event, status, conclusion, workflow id, head branch)
SHAPES = [(ev, st, co, wf, br) for ev in EVENTS
          for (st, co) in STATUS_CONCLUSION for wf in WORKFLOWS
          for br in BRANCHES]


def run_json(n, shape):
    ev, st, co, wf, br = shape
    return {'id': n + 1, 'head_sha': SHA, 'head_branch': br, 'status': st,
            'event': ev, 'workflow_id': wf, 'check_suite_id': n + 1,
            'conclusion': co,
            'pull_requests': [{'number': 1}],
            'repository': {'full_name': 'octo-org/Hello-World',
                           'owner': {'id': 1, 'login': 'octo-org'},
                           'name': 'Hello-World'}}


# -- oracle (plain Python from the statement) --------------------------------
GOODNESS = {'success': 3, None: 2, 'failure': 1, 'cancelled': 0}


def agg_oracle(shapes, ranked=True):
    """-> (allowed, tie_dependent).  allowed: SUCCESSFUL is permitted for this
    multiset of runs under at least one way of keeping "the best run of each
    workflow"; tie_dependent: some other way forbids it."""
    considered = [s for s in shapes if s[0] != 'workflow_dispatch']
    if not considered:
        return False, False
    per_wf = {}
    for s in considered:
        per_wf.setdefault(s[3], []).append(s)
    candidates = []
    for runs in per_wf.values():
        if ranked:
            top = max(GOODNESS[r[2]] for r in runs)
            candidates.append([r for r in runs if GOODNESS[r[2]] == top])
        elif any(r[2] == 'success' for r in runs):
            candidates.append([r for r in runs if r[2] == 'success'])
        else:
            candidates.append(list(runs))
    verdicts = set()
    for kept in itertools.product(*candidates):
        ok = False
        for branch in {r[4] for r in kept}:
            on_branch = [r for r in kept if r[4] == branch]
            if on_branch and all(r[2] == 'success' for r in on_branch):
                ok = True
        verdicts.add(ok)
    return (True in verdicts), (len(verdicts) > 1)


class AggEnv:
    def __init__(self, shapes=SHAPES):
        from bert_e.git_host import github
        from bert_e.git_host.github import schema
        from bert_e.lib.schema import load as load_schema
        self.github = github
        self.shapes = shapes
        self.client = github.Client(
            login='login', password='password', email='email@org.com',
            base_url='http://localhost:4010',
            accept_header='application/json')
        self.raw = [run_json(n, s) for n, s in enumerate(shapes)]
        # what AggregatedWorkflowRuns.load feeds the constructor with
        self.loaded = [
            load_schema(schema.AggregateWorkflowRuns,
                        {'total_count': 1, 'workflow_runs': [r]}
                        )['workflow_runs'][0] for r in self.raw]
        for raw, loaded in zip(self.raw, self.loaded):
            for field in ('event', 'status', 'conclusion', 'workflow_id',
                          'head_branch'):
                if raw[field] != loaded[field]:
                    raise RuntimeError('schema changed %s' % field)
        # abstract class of a run for the oracle memo
        self.cls = []
        for s in shapes:
            self.cls.append(None if s[0] == 'workflow_dispatch'
                            else (s[2], s[3], s[4]))
        self.memo = {}

    def state_loaded(self, idx):
        return self.github.AggregatedWorkflowRuns(
            self.client, _validate=False, total_count=len(idx),
            workflow_runs=[self.loaded[i] for i in idx]).state

    def state_unit_test_way(self, idx):
        return self.github.AggregatedWorkflowRuns(
            self.client, total_count=len(idx),
            workflow_runs=[dict(self.raw[i]) for i in idx]).state

    def oracle(self, idx):
        key = tuple(sorted((GOODNESS[c[0]], c[1], c[2]) for c in
                           (self.cls[i] for i in idx) if c is not None))
        res = self.memo.get(key)
        if res is None:
            shapes = [self.shapes[i] for i in idx]
            strict = agg_oracle(shapes, ranked=True)
            weak = agg_oracle(shapes, ranked=False)
            has_success = any(s[0] != 'workflow_dispatch' and
                              s[2] == 'success' for s in shapes)
            res = self.memo[key] = (strict[0], strict[1], weak[0],
                                    has_success)
        return res


def describe_runs(shapes):
    return ['%s %s/%s wf%d %s' % s for s in shapes]


def agg_case(env, idx, acc, counted=True, prefix='', beyond=False):
    got = env.state_unit_test_way(idx) if len(idx) <= 2 \
        else env.state_loaded(idx)
    if len(idx) <= 2 and got != env.state_loaded(idx):
        acc.inconc('validating and non-validating constructions of '
                   'AggregatedWorkflowRuns disagree')
    allowed, tie, weak_allowed, has_success = env.oracle(idx)
    if beyond:
        acc.count('beyond_quantifier_3wf_lists')
        if got == 'SUCCESSFUL' and not allowed:
            acc.count('beyond_quantifier_3wf_successful_but_forbidden')
            return [env.shapes[i] for i in idx]
        return None
    if counted:
        acc.evals += 1
        acc.seen('agg_states', got)
    if got == 'SUCCESSFUL':
        if counted:
            acc.nontrivial_disjoint += 1
            acc.count('agg_state_successful_checked')
            if tie and allowed:
                acc.count('dont_care_agg_tie_break_decides')
        if not allowed:
            shapes = [env.shapes[i] for i in idx]
            considered = [s for s in shapes if s[0] != 'workflow_dispatch']
            if not considered:
                mech = 'agg-successful-without-any-considered-run'
            elif not weak_allowed:
                mech = 'agg-successful-without-all-green-branch'
            else:
                mech = 'agg-successful-by-keeping-a-worse-run'
            acc.violation(
                mech, 'AggregatedWorkflowRuns.state is SUCCESSFUL for runs '
                '%r although no head branch has all its kept workflow runs '
                'successful' % describe_runs(shapes),
                {'part': 'aggregation', 'runs': [list(s) for s in shapes]})
        elif counted and acc.evals % 400009 == 1:
            acc.sample({'part': 'aggregation',
                        'runs': describe_runs([env.shapes[i] for i in idx]),
                        'state': got, 'successful_allowed': allowed})
    elif not allowed:
        if counted:
            acc.count('agg_successful_forbidden_by_oracle')
            if has_success:
                acc.nontrivial_disjoint += 1
                if acc.counters.get('agg_successful_forbidden_by_oracle',
                                    0) % 200003 == 1:
                    acc.sample({'part': 'aggregation', 'runs': describe_runs(
                        [env.shapes[i] for i in idx]), 'state': got,
                        'successful_allowed': False})
    elif counted:
        acc.count('agg_not_successful_though_allowed(not asserted)')
    return None


def run_aggregation(spec, acc):
    env = AggEnv()
    shard, n = spec['shard'], spec['nshards']
    maxlen = 4 if spec['tier'] == 'thorough' else 3
    limit = spec.get('agg_limit')      # timing slices only
    nshapes = len(SHAPES)
    done = 0
    if shard == 0:
        agg_case(env, (), acc)
        for i in range(nshapes):
            agg_case(env, (i,), acc)
    rng = range(nshapes)
    for pair, (i0, i1) in enumerate(itertools.product(rng, rng)):
        if pair % n != shard:
            continue
        agg_case(env, (i0, i1), acc)
        if maxlen < 3:
            continue
        for i2 in rng:
            agg_case(env, (i0, i1, i2), acc)
            if maxlen < 4:
                continue
            for i3 in rng:
                agg_case(env, (i0, i1, i2, i3), acc)
            done += nshapes
            if limit and done >= limit:
                return
    acc.exhaustive['aggregation: all ordered lists of <= %d runs over 72 run '
                   'shapes' % maxlen] = True
    if shard == 0:
        run_beyond_quantifier(acc)


def run_beyond_quantifier(acc):
    """Outside the quantifier (3 workflow ids): reported, never a verdict."""
    shapes = [('push', st, co, wf, br)
              for (st, co) in (('completed', 'success'),
                               ('completed', 'failure'),
                               ('in_progress', None))
              for wf in (1, 2, 3) for br in BRANCHES]
    env = AggEnv(shapes)
    first = None
    rng = range(len(shapes))
    for idx in itertools.product(rng, rng, rng):
        bad = agg_case(env, idx, acc, beyond=True)
        if bad and first is None:
            first = bad
    if first:
        acc.notes.append(
            'outside the quantifier of C17 (3 workflow ids instead of 2): '
            'state is SUCCESSFUL although no branch is all green, e.g. %r - '
            'itertools.groupby on runs not sorted by branch splits a branch '
            'into several groups; not reachable with 2 workflow ids because '
            'at most 2 runs are kept' % describe_runs(first))


# ===========================================================================
# Part 2 - sticky green cache
# ===========================================================================
COMMITS = ('c0ffee0000000000000000000000000000000001',
           'c0ffee0000000000000000000000000000000002')
HOST_KEYS = {'bitbucket': ('pre-merge', 'nightly'),
             'github': ('pre-merge', 'github_actions')}
WEBHOOK_STATES = ('S', 'F', 'P', 'X')   # X: second kind of failure
POLL_STATES = ('S', 'F', 'P', 'N')      # N: the host has no such status
STATE_NAMES = {'S': 'success', 'F': 'failure', 'P': 'in progress',
               'X': 'stopped/error/cancelled', 'N': 'no status'}
SIZES = (1, 1000)
OWNER, SLUG = 'owner', 'repo'


def decode(op):
    """op in 0..31 -> (kind, commit index, key index, abstract state)."""
    kind = 'poll' if op & 16 else 'webhook'
    s = (POLL_STATES if op & 16 else WEBHOOK_STATES)[op & 3]
    return kind, (op >> 3) & 1, (op >> 2) & 1, s


FULL_OPS = tuple(range(32))
REDUCED_OPS = tuple(op for op in range(32) if op & 3 in (0, 1))   # S, F
REDUCED_POLLS = tuple(op for op in REDUCED_OPS if op & 16)


def expected_for(host, key, s):
    """Bert-E's word(s) for what the host reports."""
    if s == 'S':
        return ('SUCCESSFUL',)
    if s == 'F':
        return ('FAILED',)
    if s == 'P':
        return ('INPROGRESS',)
    if s == 'N':
        return ('NOTSTARTED',)
    if host == 'bitbucket':
        return ('STOPPED',)
    return ('FAILED', 'STOPPED')


class Ref:
    """The statement: what is known about every (commit, key)."""

    def __init__(self, host, size):
        self.host, self.size = host, size
        self.reported = {}     # (c, k) -> abstract state the host reports now
        self.green = {}        # (c, k) -> 'yes' | 'maybe'   (absent: no)
        self.history = {}      # (c, k) -> frozenset of states reported so far
        self.evicted = set()   # (c, k) certainly evicted at least once

    def snap(self):
        return (dict(self.reported), dict(self.green), dict(self.history),
                set(self.evicted))

    def restore(self, s):
        self.reported, self.green = dict(s[0]), dict(s[1])
        self.history, self.evicted = dict(s[2]), set(s[3])

    def report(self, c, k, s):
        self.history[(c, k)] = self.history.get((c, k), frozenset()) | {s}
        if s == 'N':
            self.reported.pop((c, k), None)
        else:
            self.reported[(c, k)] = s

    def used(self, c, k):
        """Bert-E looked up / maybe stored entry (c, k): with a cache of size
        1 every other entry may have been pushed out (size 1000 > 2 commits:
        nothing ever is)."""
        if self.size > len(COMMITS):
            return
        for other in self.green:
            if other != (c, k):
                self.green[other] = 'maybe'

    def is_green(self, c, k):
        """(c, k) was stored or answered SUCCESSFUL: it IS the most recently
        used entry, so with size 1 no other commit is cached under k."""
        self.green[(c, k)] = 'yes'
        if self.size > len(COMMITS):
            return
        for (c2, k2) in list(self.green):
            if c2 != c and k2 == k:
                del self.green[(c2, k2)]
                self.evicted.add((c2, k2))

    def webhook(self, c, k, s):
        self.report(c, k, s)
        self.used(c, k)
        if s == 'S':
            self.is_green(c, k)                  # stored SUCCESSFUL

    def before_poll(self, c, k, s):
        """-> (knowledge, acceptable answers, what the host reports)."""
        self.report(c, k, s)
        self.used(c, k)
        know = self.green.get((c, k), 'no')
        host_words = expected_for(self.host, k, s)
        if know == 'yes':
            return know, ('SUCCESSFUL',), host_words
        if know == 'maybe':
            return know, ('SUCCESSFUL',) + host_words, host_words
        return know, host_words, host_words

    def after_poll(self, c, k, answer):
        if answer == 'SUCCESSFUL':
            self.is_green(c, k)                  # answered SUCCESSFUL
        if self.host == 'github':
            # the poll showed Bert-E every status of the commit
            for (c2, k2), s2 in self.reported.items():
                if c2 == c and k2 != k and s2 == 'S' and \
                        (c2, k2) not in self.green:
                    self.green[(c2, k2)] = 'maybe'


class LruMonitor:
    """Class invariant of LRUCache, checked after every get / set."""
    installed = None

    def __init__(self):
        self.checks = 0
        self.broken = []

    @classmethod
    def install(cls):
        if cls.installed is not None:
            return cls.installed
        from bert_e.lib.lru_cache import LRUCache
        mon = cls.installed = cls()
        real_get, real_set = LRUCache.get, LRUCache.set

        def check(cache):
            mon.checks += 1
            if len(cache._dict) > cache._size and len(mon.broken) < 5:
                mon.broken.append((len(cache._dict), cache._size))

        def get(self, key, default=None):
            res = real_get(self, key, default)
            check(self)
            return res

        def set(self, key, val):
            res = real_set(self, key, val)
            check(self)
            return res
        LRUCache.get, LRUCache.set = get, set
        return mon


class Harness:
    """Real client + real repository object + real Flask application of one
    git host; the host itself is `self.world` answered by the scripted
    adapter."""

    def __init__(self, host):
        import base64
        import functools
        import os
        from collections import deque
        from queue import Queue
        os.environ.update(WEBHOOK_LOGIN='hook', WEBHOOK_PWD='hookpw',
                          BERT_E_CLIENT_ID='id', BERT_E_CLIENT_SECRET='s')
        import warnings
        warnings.simplefilter('ignore')
        from bert_e import bert_e as bert_e_mod, server
        from bert_e.git_host import cache, github, bitbucket
        from bert_e.lib.lru_cache import LRUCache
        from bert_e.lib.settings_dict import SettingsDict
        from vf.http.c17_scripted import ScriptedAdapter, Reply, mount, \
            patch_sleep
        patch_sleep()
        self.Reply = Reply
        self.host = host
        self.keys = HOST_KEYS[host]
        self.cache = cache
        self.LRUCache = LRUCache
        self.partial = functools.partial
        self.default_factory = cache.BUILD_STATUS_CACHE.default_factory
        self.world = {}          # (commit sha, key) -> abstract state
        self.multi_runs = {}     # commit sha -> runs of several workflows
        self.monitor = LruMonitor.install()
        if host == 'github':
            self.client = github.Client(login='robot', password='robot-pw',
                                        email='robot@example.com',
                                        base_url='http://github.test')
            self.repo = github.Repository(
                self.client, name=SLUG, owner={'id': 7, 'login': OWNER},
                full_name='%s/%s' % (OWNER, SLUG))
            responder = self.github_host
        else:
            self.client = bitbucket.Client('robot', 'robot-pw',
                                           'robot@example.com')
            self.repo = bitbucket.Repository(self.client, owner=OWNER,
                                             repo_slug=SLUG)
            responder = self.bitbucket_host
        self.adapter = mount(self.client, ScriptedAdapter(
            responder=responder, record=False))
        harness = self

        class ScriptedHostBertE(bert_e_mod.BertE):
            def __init__(self):
                self.client = harness.client
                self.project_repo = harness.repo
                self.settings = SettingsDict({
                    'repository_host': host, 'repository_owner': OWNER,
                    'repository_slug': SLUG, 'build_key': harness.keys[0],
                    'commit_base_url': 'http://host.test/commits/{commit_id}',
                    'pull_request_base_url': 'http://host.test/pr/{pr_id}',
                    'admins': []})
                self.git_repo = None
                self.task_queue = Queue()
                self.tasks_done = deque(maxlen=1000)
                self.status = {}
        self.bert_e = ScriptedHostBertE()
        self.app = server.setup_server(self.bert_e)
        self.http = self.app.test_client()
        self.auth = 'Basic ' + base64.b64encode(b'hook:hookpw').decode()
        self.size = None
        self.environs = {}
        from io import BytesIO
        self.BytesIO = BytesIO

    # -- the cache ------------------------------------------------------------
    def reset(self, size):
        c = self.cache.BUILD_STATUS_CACHE
        c.clear()
        c.default_factory = self.default_factory if size == 1000 \
            else self.partial(self.LRUCache, size)
        self.size = size
        self.world.clear()
        if self.host == 'github' and any(
                len(v._dict) for v in self.client.query_cache.values()):
            raise RuntimeError('unexpected conditional-request cache entry')

    def snap(self):
        from collections import OrderedDict
        return ({k: OrderedDict(v._dict)
                 for k, v in self.cache.BUILD_STATUS_CACHE.items()},
                dict(self.world))

    def restore(self, s):
        from collections import OrderedDict
        c = self.cache.BUILD_STATUS_CACHE
        c.clear()
        for k, d in s[0].items():
            c[k]._dict = OrderedDict(d)
        self.world.clear()
        self.world.update(s[1])

    def cache_view(self):
        return {k: [(c[-1:], v.state) for c, v in lru._dict.items()]
                for k, lru in self.cache.BUILD_STATUS_CACHE.items()}

    # -- the simulated hosts ---------------------------------------------------
    def bitbucket_host(self, rec):
        parts = rec.path.split('/')
        # /2.0/repositories/<owner>/<slug>/commit/<sha>/statuses/build/<key>
        if rec.method == 'GET' and len(parts) == 10 and \
                parts[5] == 'commit' and parts[7:9] == ['statuses', 'build']:
            sha, key = parts[6], parts[9]
            s = self.world.get((sha, key))
            if s is None:
                return self.Reply(404, {'type': 'error', 'error': {
                    'message': 'no such build status'}})
            raw = {'S': 'SUCCESSFUL', 'F': 'FAILED', 'P': 'INPROGRESS',
                   'X': 'STOPPED'}[s]
            return self.Reply(200, self.bitbucket_status(sha, key, raw))
        raise AssertionError('unexpected request %s %s' % (rec.method,
                                                           rec.url))

    @staticmethod
    def bitbucket_status(sha, key, raw):
        return {'state': raw, 'key': key, 'type': 'build',
                'name': 'build of %s' % sha[-4:],
                'description': 'scripted build',
                'url': 'https://ci.test/builds/%s/%s' % (key, sha[-4:]),
                'links': {'commit': {'href': 'https://api.bitbucket.org/2.0/'
                                     'repositories/%s/%s/commit/%s'
                                     % (OWNER, SLUG, sha)}}}

    def github_runs(self, sha):
        if sha in self.multi_runs:
            return [dict(r, repository=self.github_repo_json())
                    for r in self.multi_runs[sha]]
        s = self.world.get((sha, 'github_actions'))
        if s is None:
            return []
        status, conclusion = {'S': ('completed', 'success'),
                              'F': ('completed', 'failure'),
                              'P': ('in_progress', None),
                              'X': ('completed', 'cancelled')}[s]
        return [{'id': 11, 'head_sha': sha, 'head_branch': 'w/1.0/x',
                 'status': status, 'conclusion': conclusion, 'event': 'push',
                 'workflow_id': 1, 'check_suite_id': 21,
                 'html_url': 'https://github.test/runs/11',
                 'repository': self.github_repo_json()}]

    @staticmethod
    def github_repo_json():
        return {'name': SLUG, 'full_name': '%s/%s' % (OWNER, SLUG),
                'owner': {'id': 7, 'login': OWNER}}

    def github_host(self, rec):
        parts = rec.path.split('/')
        # /repos/<owner>/<slug>/commits/<sha>/status
        if rec.method == 'GET' and len(parts) == 7 and \
                parts[4] == 'commits' and parts[6] == 'status':
            sha = parts[5]
            statuses = []
            for (c, k), s in sorted(self.world.items()):
                if c == sha and k != 'github_actions':
                    statuses.append({
                        'state': {'S': 'success', 'F': 'failure',
                                  'P': 'pending', 'X': 'error'}[s],
                        'context': k, 'description': 'scripted build',
                        'target_url': 'https://ci.test/%s' % k})
            return self.Reply(200, {'sha': sha, 'state': 'pending',
                                    'statuses': statuses})
        # /repos/<owner>/<slug>/actions/runs?head_sha=<sha>
        if rec.method == 'GET' and parts[4:] == ['actions', 'runs']:
            runs = self.github_runs(rec.query['head_sha'])
            # the list filters of the real API ("List workflow runs for a
            # repository"): a narrower question gets a narrower answer
            for param, field in (('check_suite_id', 'check_suite_id'),
                                 ('branch', 'head_branch'),
                                 ('event', 'event')):
                if param in rec.query:
                    runs = [r for r in runs
                            if str(r[field]) == rec.query[param]]
            if 'status' in rec.query:
                runs = [r for r in runs if rec.query['status'] in
                        (r['status'], r['conclusion'])]
            return self.Reply(200, {'total_count': len(runs),
                                    'workflow_runs': runs})
        raise AssertionError('unexpected request %s %s' % (rec.method,
                                                           rec.url))

    # -- operations ------------------------------------------------------------
    def set_world(self, sha, key, s):
        if s == 'N':
            self.world.pop((sha, key), None)
        else:
            self.world[(sha, key)] = s

    def webhook_request(self, sha, key, s):
        """-> (route, headers, JSON body) of the status event."""
        if self.host == 'bitbucket':
            raw = {'S': 'SUCCESSFUL', 'F': 'FAILED', 'P': 'INPROGRESS',
                   'X': 'STOPPED'}[s]
            body = {'commit_status': self.bitbucket_status(sha, key, raw),
                    'repository': {'name': SLUG, 'full_name': '%s/%s' % (
                        OWNER, SLUG), 'owner': {'username': OWNER}}}
            return '/bitbucket', {'X-Event-Key': 'repo:commit_status_updated',
                                  'Authorization': self.auth}, body
        if key == 'github_actions':
            run = self.github_runs(sha)[0]
            body = {'action': 'completed' if run['conclusion']
                    else 'requested',
                    'check_suite': {'id': 21, 'head_sha': sha,
                                    'head_branch': run['head_branch'],
                                    'status': run['status'],
                                    'conclusion': run['conclusion']},
                    'repository': self.github_repo_json()}
            return '/github', {'X-Github-Event': 'check_suite',
                               'Authorization': self.auth}, body
        body = {'sha': sha, 'context': key, 'description': 'scripted',
                'state': {'S': 'success', 'F': 'failure', 'P': 'pending',
                          'X': 'error'}[s],
                'target_url': 'https://ci.test/%s' % key,
                'repository': self.github_repo_json()}
        return '/github', {'X-Github-Event': 'status',
                           'Authorization': self.auth}, body

    def webhook(self, c, k, s):
        """Deliver the event to the real route with the Flask test client.
        The first delivery of each of the 16 distinct events goes through
        client.post(); its WSGI environ is built once more and kept, later
        deliveries hand a copy of it (with a fresh body stream) to the same
        test client's run_wsgi_app() - same application, same routes, minus
        250 us of environ building per event."""
        sha, key = COMMITS[c], self.keys[k]
        self.set_world(sha, key, s)
        kept = self.environs.get((c, k, s))
        if kept is None:
            from flask.testing import EnvironBuilder
            route, headers, body = self.webhook_request(sha, key, s)
            data = json.dumps(body).encode()
            builder = EnvironBuilder(self.app, route, method='POST',
                                     data=data, headers=headers)
            try:
                self.environs[(c, k, s)] = (builder.get_environ(), data)
            finally:
                builder.close()
            code = self.http.post(route, data=data,
                                  headers=headers).status_code
        else:
            environ = dict(kept[0])
            environ['wsgi.input'] = self.BytesIO(kept[1])
            rv = self.http.run_wsgi_app(environ, buffered=True)
            for _ in rv[0]:
                pass
            code = int(rv[1].split()[0])
        self.bert_e.task_queue.queue.clear()
        return code

    def poll(self, c, k, s):
        sha, key = COMMITS[c], self.keys[k]
        self.set_world(sha, key, s)
        return self.repo.get_build_status(sha, key)


MULTI_STATES = {'S': ('completed', 'success'), 'F': ('completed', 'failure'),
                'P': ('in_progress', None), 'X': ('completed', 'cancelled')}


def run_multi_workflow(acc):
    """A commit built by TWO workflows (one check suite each, as GitHub
    Actions does): check_suite webhooks of either suite, in either order,
    then a poll.  Nothing changes on the host meanwhile, so whatever Bert-E
    answers must be what the host reports for the COMMIT: SUCCESSFUL iff both
    workflows succeeded."""
    h = Harness('github')
    sha = COMMITS[0]
    for s1 in 'SFPX':
        for s2 in 'SFPX':
            for deliveries in ((1,), (2,), (1, 2), (2, 1), ()):
                h.reset(1000)
                h.multi_runs[sha] = [
                    {'id': 10 + w, 'head_sha': sha, 'head_branch': 'w/1.0/x',
                     'status': MULTI_STATES[s][0],
                     'conclusion': MULTI_STATES[s][1], 'event': 'push',
                     'workflow_id': w, 'check_suite_id': 20 + w,
                     'html_url': 'https://github.test/runs/%d' % (10 + w)}
                    for w, s in ((1, s1), (2, s2))]
                codes = []
                for w in deliveries:
                    run = h.multi_runs[sha][w - 1]
                    body = {'action': 'completed' if run['conclusion']
                            else 'requested',
                            'check_suite': {'id': run['check_suite_id'],
                                            'head_sha': sha,
                                            'head_branch': run['head_branch'],
                                            'status': run['status'],
                                            'conclusion': run['conclusion']},
                            'repository': h.github_repo_json()}
                    codes.append(h.http.post(
                        '/github', data=json.dumps(body),
                        headers={'X-Github-Event': 'check_suite',
                                 'Authorization': h.auth,
                                 'Content-Type': 'application/json'}
                    ).status_code)
                    h.bert_e.task_queue.queue.clear()
                got = h.repo.get_build_status(sha, 'github_actions')
                h.multi_runs.clear()
                acc.evals += 1
                acc.count('multi_workflow_webhook_cells')
                acc.nontrivial('multi-workflow|%s%s|%s' % (
                    s1, s2, ''.join(map(str, deliveries)) or 'poll-only'))
                green = s1 == 'S' and s2 == 'S'
                wit = {'part': 'multi-workflow', 'states': [s1, s2],
                       'deliveries': list(deliveries)}
                if any(c >= 400 for c in codes):
                    acc.count('multi_workflow_webhook_refused')
                if (got == 'SUCCESSFUL') != green:
                    acc.violation(
                        'green-for-a-commit-with-a-non-green-workflow'
                        if not green else
                        'not-green-although-every-workflow-succeeded',
                        'workflows 1/2 of the commit are %s/%s on the host; '
                        'check_suite webhooks delivered for suites %s; '
                        'get_build_status answers %s' % (
                            STATE_NAMES.get(s1, s1), STATE_NAMES.get(s2, s2),
                            list(deliveries), got), wit)
                elif len(acc.samples) < 8 and deliveries and s1 != s2:
                    acc.sample(dict(wit, answer=got))


def ops_json(ops):
    return [list(decode(op)) for op in ops]


def encode(kind, c, k, s):
    table = POLL_STATES if kind == 'poll' else WEBHOOK_STATES
    return (16 if kind == 'poll' else 0) | c << 3 | k << 2 | table.index(s)


def describe_ops(h, ops):
    out = []
    for op in ops:
        kind, c, k, s = decode(op)
        out.append('%s(commit%d, %s, %s)' % (kind, c + 1, h.keys[k],
                                             STATE_NAMES[s]))
    return out


def step(h, ref, op, seq, acc, counted, answers=None, disjoint=True):
    """Run one operation on the real code and on the model, compare.
    -> whether this step is non-trivial by RULE."""
    kind, c, k, s = decode(op)
    broken_before = len(h.monitor.broken)
    nontrivial = False
    if kind == 'webhook':
        code = h.webhook(c, k, s)
        ref.webhook(c, k, s)
        if code not in (200, 202):
            acc.inconc('webhook route answered %s for a well-formed status '
                       'event (%s)' % (code, h.host))
        if counted:
            acc.count('cache_webhooks_delivered')
        if answers is not None:
            answers.append(code)
    else:
        know, accepted, host_words = ref.before_poll(c, k, s)
        try:
            answer = h.poll(c, k, s)
        except Exception as err:     # noqa - the answer is then an exception
            answer = 'raised %s' % type(err).__name__
        if answers is not None:
            answers.append(answer)
        if counted:
            acc.seen('poll_answers_%s' % h.host, answer)
            seen_other = len(ref.history.get((c, k), ())) > 1
            if know == 'yes':
                acc.count('cache_green_asserted')
                if s != 'S':
                    nontrivial = True
                    acc.count('cache_sticky_green_asserted')
            elif know == 'maybe':
                acc.count('dont_care_maybe_evicted_or_maybe_seen')
            else:
                acc.count('cache_host_answer_asserted')
                if (c, k) in ref.evicted:
                    nontrivial = True
                    acc.count('cache_evicted_answer_asserted')
                elif seen_other:
                    nontrivial = True
                    acc.count('cache_host_answer_asserted_after_change')
        if answer not in accepted:
            if know == 'yes':
                if h.host == 'github' and any(
                        decode(o)[0] == 'poll' and decode(o)[1] == c and
                        decode(o)[2] != k for o in seq[:-1]):
                    mech = 'github-poll-of-another-key-overwrites-cached-green'
                else:
                    mech = 'cache-green-downgraded-%s' % h.host
            elif know == 'no' and (c, k) in ref.evicted:
                mech = 'cache-stale-answer-after-certain-eviction-%s' % h.host
            elif answer.startswith('raised'):
                mech = 'cache-poll-raised-%s' % h.host
            else:
                mech = 'cache-answer-differs-from-host-%s' % h.host
            acc.violation(
                mech, 'host=%s cache size=%d: after %r get_build_status '
                'answered %s, expected %s (seen green: %s; the host reports '
                '%s)' % (h.host, h.size, describe_ops(h, seq), answer,
                         ' or '.join(accepted), know, '/'.join(host_words)),
                {'part': 'cache', 'host': h.host, 'size': h.size,
                 'ops': ops_json(seq)})
        ref.after_poll(c, k, answer)
    if len(h.monitor.broken) > broken_before:
        acc.violation(
            'lru-cache-holds-more-than-its-size', 'host=%s cache size=%d: '
            'after %r an LRUCache holds %d entries for size %d' % (
                (h.host, h.size, describe_ops(h, seq)) +
                h.monitor.broken[-1]),
            {'part': 'cache', 'host': h.host, 'size': h.size,
             'ops': ops_json(seq)})
    if counted:
        acc.evals += 1
        if nontrivial and disjoint:
            acc.nontrivial_disjoint += 1
    return nontrivial


def run_fresh(h, size, ops, acc, counted=False):
    """One history from an empty cache, no snapshots.  -> (answers, whether
    the last step was non-trivial).  The history is ONE case: every step is
    compared with the model but only the last one is counted."""
    h.reset(size)
    ref = Ref(h.host, size)
    answers, seq, nontrivial = [], [], False
    for i, op in enumerate(ops):
        seq.append(op)
        nontrivial = step(h, ref, op, seq, acc,
                          counted and i == len(ops) - 1, answers,
                          disjoint=False)
    return answers, nontrivial


class Dfs:
    def __init__(self, h, size, alphabet, maxdepth, count_from, acc, keep,
                 last_alphabet=None):
        self.h, self.size, self.alphabet = h, size, alphabet
        self.last_alphabet = last_alphabet or alphabet
        self.maxdepth, self.count_from, self.acc = maxdepth, count_from, acc
        self.keep = keep          # re-run every keep-th leaf from scratch
        self.leaves = 0
        self.kept = []

    def unit(self, prefix, own_first):
        """All histories extending `prefix` (2 operations).  The 1-operation
        history prefix[:1] is counted by the unit that owns it."""
        h = self.h
        h.reset(self.size)
        ref = Ref(h.host, self.size)
        seq, answers = [], []
        for i, op in enumerate(prefix):
            seq.append(op)
            counted = (i + 1 >= self.count_from) and (i == 1 or own_first)
            step(h, ref, op, seq, self.acc, counted, answers)
        self.walk(ref, seq, answers)

    def walk(self, ref, seq, answers):
        if len(seq) >= self.maxdepth:
            self.leaves += 1
            if self.leaves % self.keep == 1 and len(self.kept) < 40:
                self.kept.append((tuple(seq), tuple(answers)))
            return
        h, acc = self.h, self.acc
        real, model = h.snap(), ref.snap()
        counted = len(seq) + 1 >= self.count_from
        for op in (self.last_alphabet if len(seq) + 1 == self.maxdepth
                   else self.alphabet):
            seq.append(op)
            step(h, ref, op, seq, acc, counted, answers)
            self.walk(ref, seq, answers)
            seq.pop()
            answers.pop()
            h.restore(real)
            ref.restore(model)

    def crosscheck(self):
        """Snapshots must not change what the real code answers."""
        from vf.common.acc import Acc
        for seq, answers in self.kept:
            scratch = Acc()
            fresh, _ = run_fresh(self.h, self.size, seq, scratch)
            self.acc.count('snapshot_crosscheck_sequences')
            if tuple(fresh) != answers:
                self.acc.inconc(
                    'depth-first snapshots are not faithful: %r answered %r '
                    'with snapshots and %r from a fresh state' % (
                        ops_json(seq), answers, fresh))


def cache_units(tier):
    """Work units of part 2, the same list in every shard."""
    full_depth = 4 if tier == 'thorough' else 3
    nsample = 10000 if tier == 'thorough' else 4000
    chunk = 500
    units = []
    for host in ('bitbucket', 'github'):
        for size in SIZES:
            for a in FULL_OPS:
                for b in FULL_OPS:
                    units.append(('full', host, size, (a, b), full_depth))
            for a in REDUCED_OPS:
                for b in REDUCED_OPS:
                    units.append(('reduced', host, size, (a, b),
                                  full_depth + 1))
            for n in range(nsample // chunk):
                units.append(('sample', host, size, n, full_depth + 1))
    return units, chunk


def run_cache(spec, acc):
    tier, shard, n = spec['tier'], spec['shard'], spec['nshards']
    units, chunk = cache_units(tier)
    limit = spec.get('cache_limit')
    harnesses = {}
    dfs = {}
    done = 0
    for idx, unit in enumerate(units):
        if idx % n != shard:
            continue
        kind, host, size, what, depth = unit
        h = harnesses.get(host)
        if h is None:
            h = harnesses[host] = Harness(host)
        if kind == 'sample':
            rng = random.Random('%s/%s/%s/%s/%s' % (
                spec['seed'], tier, host, size, what))
            for _ in range(chunk):
                ops = tuple(rng.randrange(32) for _ in range(depth))
                _, nontrivial = run_fresh(h, size, ops, acc, counted=True)
                acc.count('cache_sampled_histories')
                if nontrivial:
                    # a sampled history may repeat: distinct by content
                    acc.nontrivial('%s%d:%s' % (host[0], size, ''.join(
                        '%02d' % o for o in ops)))
        else:
            alphabet = FULL_OPS if kind == 'full' else REDUCED_OPS
            count_from = 1 if kind == 'full' else depth
            key = (kind, host, size)
            d = dfs.get(key)
            if d is None:
                d = dfs[key] = Dfs(
                    h, size, alphabet, depth, count_from, acc,
                    keep=997 if tier == 'thorough' else 97,
                    last_alphabet=None if kind == 'full' else REDUCED_POLLS)
            d.unit(what, own_first=(what[1] == alphabet[0]))
        done += 1
        if limit and done >= limit:
            break
    for d in dfs.values():
        d.crosscheck()
    mon = LruMonitor.installed
    if mon is not None:
        acc.count('lru_invariant_checks', mon.checks)
    if limit:
        return
    full_depth = 4 if tier == 'thorough' else 3
    acc.exhaustive['cache: all histories of <= %d operations, 32-operation '
                   'alphabet, hosts {bitbucket, github} x cache size '
                   '{1, 1000}' % full_depth] = True
    acc.exhaustive['cache: all histories of exactly %d operations ending '
                   'with a poll, reported state in {SUCCESSFUL, FAILED}, '
                   'hosts {bitbucket, github} x cache size {1, 1000}'
                   % (full_depth + 1)] = True
    acc.exhaustive['cache: all histories of exactly %d operations, '
                   '32-operation alphabet (sampled only)'
                   % (full_depth + 1)] = False


# ===========================================================================
# Part 2c - recency: an entry that keeps being used is not the one evicted
# ===========================================================================
RECENCY_COMMITS = tuple('c0ffee00000000000000000000000000000001%02d' % i
                        for i in range(6))


def run_recency(acc, seed, tier):
    """Small caches (2, 3 entries) and more commits than entries.  The
    statement is about a LEAST-RECENTLY-USED cache: a green entry may only be
    forgotten once `size` distinct other commits were used under the same key
    since its own last use.  Sound under-approximation of 'use of c': a poll
    of c (always a cache look-up) and the webhook that first stores c green;
    every operation on another commit counts as a use of that commit."""
    nhist = 1200 if tier == 'thorough' else 300
    for host in ('bitbucket', 'github'):
        h = Harness(host)
        key = h.keys[0]
        for size in (2, 3):
            commits = RECENCY_COMMITS[:size + 2]
            rng = random.Random('%s/recency/%s/%d' % (seed, host, size))
            for n in range(nhist):
                h.reset(size)
                green = {}        # sha -> True once certainly cached green
                since = {}        # sha -> set of other shas used since
                ops = []
                for _ in range(rng.randrange(6, 16)):
                    sha = rng.choice(commits)
                    if rng.random() < 0.35:
                        s = rng.choice('SSF')
                        ops.append(('webhook', sha[-2:], s))
                        h.set_world(sha, key, s)
                        route, headers, body = h.webhook_request(sha, key, s)
                        h.http.post(route, data=json.dumps(body).encode(),
                                    headers=headers)
                        h.bert_e.task_queue.queue.clear()
                        for other in since:
                            if other != sha:
                                since[other].add(sha)
                        if s == 'S' and not green.get(sha):
                            green[sha] = True
                            since[sha] = set()
                        continue
                    s = rng.choice('SFF')
                    ops.append(('poll', sha[-2:], s))
                    h.set_world(sha, key, s)
                    certain = green.get(sha) and len(since[sha]) < size
                    answer = h.repo.get_build_status(sha, key)
                    acc.evals += 1
                    acc.count('recency_polls')
                    if green.get(sha) and s != 'S':
                        acc.count('recency_polls_of_a_green_commit_now_red')
                        if certain:
                            acc.count('recency_polls_that_must_stay_green')
                            acc.nontrivial('rec:%s%d:%d' % (host[0], size, n))
                    if certain and answer != 'SUCCESSFUL':
                        acc.violation(
                            'cache-forgets-a-recently-used-green-entry-%s'
                            % host, 'host=%s cache size=%d: after %r the '
                            'green commit %s (used more recently than all but '
                            '%d other commit(s)) is answered %s' % (
                                host, size, ops, sha[-2:], len(since[sha]),
                                answer),
                            {'part': 'recency', 'host': host, 'size': size,
                             'ops': ops})
                    for other in since:
                        if other != sha:
                            since[other].add(sha)
                    if answer == 'SUCCESSFUL':
                        green[sha] = True
                        since[sha] = set()
                    else:
                        green.pop(sha, None)
                        since.pop(sha, None)


# ===========================================================================
# driver interface
# ===========================================================================
def plan(tier, seed):
    return [{} for _ in range(32 if tier == 'thorough' else 16)]


def run_shard(spec, acc):
    import logging
    logging.disable(logging.CRITICAL)
    if spec.get('only') != 'cache':
        run_aggregation(spec, acc)
    if spec.get('only') != 'aggregation':
        run_cache(spec, acc)
        if spec['shard'] == 1:
            run_multi_workflow(acc)
        if spec['shard'] == 2:
            run_recency(acc, spec['seed'], spec['tier'])


def finalize(acc, tier, seed):
    pass


def replay(w, acc):
    import logging
    logging.disable(logging.CRITICAL)
    if w.get('part') == 'multi-workflow':
        run_multi_workflow(acc)
    elif w.get('part') == 'recency':
        run_recency(acc, os.environ.get('VERIF_SEED', '1'), 'quick')
    elif w.get('part') == 'aggregation':
        shapes = [tuple(s) for s in w['runs']]
        env = AggEnv(shapes)
        agg_case(env, tuple(range(len(shapes))), acc)
    else:
        h = Harness(w['host'])
        ops = tuple(encode(*op) for op in w['ops'])
        run_fresh(h, w['size'], ops, acc, counted=True)
