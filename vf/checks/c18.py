"""C18 - branch names are classified unambiguously and robot names round-trip.

Part A (names): every name of a bounded grammar goes through the real
branch_factory and through every GWFBranch subclass on its own; class, parsed
attributes and can_be_destination are compared with vf.func.c18_oracle (string
operations only).

Part B (round trip): for every valid feature-like source name of that grammar
x pull-request id x every version shape Bert-E derives, the real
get_integration_branches / create_integration_branches / get_queue_branch /
get_queue_integration_branch build the w/..., q/... and q/w/... branches on a
stub job; the parsed attributes must give back the triple, and the real
handle_commit must map the w/ branch back to the source name when it looks for
the pull request.
"""
import itertools
import random
import zlib

from vf.func import c18_oracle as oracle

ID = 'C18'
LEVEL = 'exploration'
EXHAUSTIVE_MEANS_ALL = False    # exhaustive inside the bounded grammar only
RULE = ('part A: names = prefix form (9 feature prefixes, development, '
        'stabilization, hotfix, release, user, w, q, 3 unknown, q/w/<pr id '
        'shape>) x version shape (x, x.y, x.y.z, x.y.z.n in two numeral '
        'families, 5 components, leading zeros, empty, "1.", ".1", letters, '
        'glued junk, non-ASCII digits, absent) x label (absent, or up to 3 '
        'fragments [4 over a core alphabet in the thorough tier] out of '
        'ticket key, lower-case key, key-like A-1-2, underscore project, '
        'digits, word, ".", "-", "_", "/", version-like, prefix-like w q '
        'w/1.0 q/w/7 feature bugfix development hotfix user); VERIF_SEED '
        'draws the numerals and words; duplicates are removed (a name is '
        'evaluated by the shard its CRC selects, once), so every evaluated '
        'name is distinct; non-trivial = a valid git ref that starts with a '
        'known prefix form and whose outcome the oracle asserts.  part B: '
        'every (pr id in {1,10,12345}, destination version, valid feature '
        'source name) triple, each enumerated once; all are non-trivial')
ASSUMPTIONS = [
    'the oracle reads the grammar from the statement, USER_DOC.md '
    '(development/x.y, stabilization/x.y.z, q/x.y, '
    'w/<version>/<source>, feature/KEY-1234-xxx, hotfix/ and user/ sources '
    'ignored), CHANGELOG (development/x) and the prefix list Bert-E prints',
    'dont-care: names that are not valid git refs; leading zeros and '
    'non-ASCII decimal digits in numbers; release/<x | x.y.z | x.y.z.n>; '
    'w/ and q/w/ names whose source part is a development, stabilization, '
    'hotfix, release or user name; the parsed ticket key when the label '
    'does not start with an upper-case KEY-123',
    'jobs, pull request, git repository and git host are stubs; the name '
    'construction, the branch classes and handle_commit are the real code; '
    'the hotfix version x.y.z.n is produced by the real '
    'BranchCascade.update_versions from a tag',
    'cascade_producer / cascade_consumer are recorded, not asserted (the '
    'statement only constrains can_be_destination)',
]
MIN_NONTRIVIAL = 100000
REQUIRED_COUNTERS = dict(
    [('expected_' + k, 30) for k in oracle.KINDS] +
    [('expected_rejected', 1000), ('names_compared', 100000),
     ('fields_compared', 10000), ('ambiguity_checked', 100000),
     ('destination_flag_checked', 10000),
     ('overlap_hotfix_legacy_resolved_as_hotfix', 1),
     ('roundtrip_w', 10000), ('roundtrip_qw', 10000), ('roundtrip_q', 6),
     ('roundtrip_ghost', 1000), ('handle_commit_mapping', 10000),
     ('roundtrip_hotfix_version', 1000), ('c18w_cases', 20),
     ('c18w_queue_names_checked', 10), ('c18w_merged_and_landed', 20)])
SHARD_TIMEOUT = {'quick': 900, 'thorough': 3600}

CLASS_KIND = {
    'DevelopmentBranch': 'development',
    'StabilizationBranch': 'stabilization',
    'HotfixBranch': 'hotfix',
    'ReleaseBranch': 'release',
    'FeatureBranch': 'feature',
    'IntegrationBranch': 'integration',
    'QueueBranch': 'queue',
    'QueueIntegrationBranch': 'queue_integration',
    'UserBranch': 'user',
    'LegacyHotfixBranch': 'legacy_hotfix',
}
KNOWN_HEADS = oracle.FEATURE_PREFIXES + (
    'development', 'stabilization', 'hotfix', 'release', 'user', 'w', 'q')
UNKNOWN_HEADS = ('wip', 'Feature', 'bugfixes')
PR_SHAPES = ('1', '10', '12345', '007', '', 'x', '١')
PR_IDS = (1, 10, 12345)


# --------------------------------------------------------------------------
# the grammar
# --------------------------------------------------------------------------
def tokens(seed):
    """Numerals and words of the grammar; seed 0 is the written-out default,
    any other seed draws them."""
    if not seed:
        return {'fam': ((1, 0, 0, 1), (4, 3, 18, 2), (10, 12, 3, 12)),
                'ticket': 'KEY-12345', 'lower': 'key-12', 'keylike': 'A-1-2',
                'under': 'K_2-7', 'digits': '42', 'word': 'foo', 'wpr': '7'}
    rng = random.Random(seed)
    proj = rng.choice(['KEY', 'RING', 'S3C', 'ZENKO', 'AB', 'X', 'MD5SUM'])
    low = rng.choice(['key', 'ring', 'zk', 'pr', 'fix'])
    return {
        'fam': ((1, 0, 0, 1),
                (rng.randint(2, 9), rng.randint(0, 9), rng.randint(0, 30),
                 rng.randint(1, 9)),
                (rng.randint(10, 120), rng.randint(10, 99),
                 rng.randint(0, 9), rng.randint(10, 40))),
        'ticket': '%s-%d' % (proj, rng.randint(1, 99999)),
        'lower': '%s-%d' % (low, rng.randint(1, 999)),
        'keylike': '%s-%d-%d' % (rng.choice('ABCXYZ'), rng.randint(1, 9),
                                 rng.randint(1, 9)),
        'under': '%s_%d-%d' % (rng.choice('KQZ'), rng.randint(1, 9),
                               rng.randint(1, 99)),
        'digits': str(rng.randint(1, 99999)),
        'word': rng.choice(['foo', 'fix', 'typo', 'Refactor', 'v', 'rc']),
        'wpr': str(rng.randint(1, 999)),
    }


def vstr(t):
    return '.'.join(str(x) for x in t)


def version_shapes(tok):
    out = []
    for fam in tok['fam'][:2]:
        for n in (1, 2, 3, 4):
            out.append(vstr(fam[:n]))
    a, b, c, d = tok['fam'][1]
    out += [vstr(tok['fam'][2][:2]),
            '1.0.0.1.0', '0.0',
            '0%d.%d' % (a, b), '%d.0%d' % (a, b), '%d.%d.0%d' % (a, b, c),
            '', '%d.' % a, '.%d' % b, '%d..%d' % (a, b), 'a.b', '%d.x' % a,
            'v%d.%d' % (a, b), '%d.%da' % (a, b), '%d-%d' % (a, b),
            '%d.%d.' % (a, b), '١.٢', '%d.%d ' % (a, b)]
    seen, res = set(), []
    for v in out:
        if v not in seen:
            seen.add(v)
            res.append(v)
    return res


def fragments(tok):
    a, b, c, d = tok['fam'][1]
    core = [tok['ticket'], tok['lower'], tok['digits'], tok['word'],
            '.', '-', '_', '/', '1.0', 'w', 'feature', 'development']
    extra = [tok['keylike'], tok['under'], vstr((a, b, c)), 'q', 'w/1.0',
             'q/w/' + tok['wpr'], 'bugfix', 'hotfix', 'user']
    return core, extra


def labels(tok, tier):
    core, extra = fragments(tok)
    full = core + extra
    out = set()
    for n in (1, 2):
        for t in itertools.product(full, repeat=n):
            out.add(''.join(t))
    three = full if tier == 'thorough' else core
    for t in itertools.product(three, repeat=3):
        out.add(''.join(t))
    if tier == 'thorough':
        small = [tok['ticket'], tok['digits'], tok['word'], '.', '-', '/',
                 '1.0', 'w']
        for t in itertools.product(small, repeat=4):
            out.add(''.join(t))
    return sorted(out)


def prefix_forms():
    forms = list(KNOWN_HEADS) + list(UNKNOWN_HEADS)
    forms += ['q/w/' + p for p in PR_SHAPES]
    return forms


SOURCE_HEADS = KNOWN_HEADS + UNKNOWN_HEADS
SWEEP_NUMERALS = (0, 1, 9, 10, 99, 100)


def source_labels(tok, tier, wide):
    """Labels of the source part of w/ and q/w/ names (a sub-grammar of
    labels(): the nesting multiplies the space)."""
    core, extra = fragments(tok)
    full = core + extra
    out = set(full)
    for t in itertools.product(
            full if (wide or tier == 'thorough') else core, repeat=2):
        out.add(''.join(t))
    if wide and tier == 'thorough':
        for t in itertools.product(core, repeat=3):
            out.add(''.join(t))
    return sorted(out)


def sweep_versions(tok):
    nums = SWEEP_NUMERALS + (tok['fam'][1][2],)
    for n in (1, 2, 3, 4):
        for t in itertools.product(nums, repeat=n):
            yield vstr(t)


def all_names(tok, tier):
    """Every name of the grammar, with repetitions."""
    labs = labels(tok, tier)
    vs = version_shapes(tok)
    # A1: prefix form x version shape x label
    for form in prefix_forms():
        yield form                      # bare, no slash after it
        for v in vs:
            base = form + '/' + v
            yield base
            for lab in labs:
                yield base + '/' + lab
        for lab in labs:
            yield form + '/' + lab
    # A2: w/ and q/w/ names whose tail is itself a prefixed name
    wide = source_labels(tok, tier, True)
    narrow = source_labels(tok, tier, False)
    for form in prefix_forms():
        if form != 'w' and not form.startswith('q/w/'):
            continue
        labs2 = wide if form == 'w' else narrow
        for v in vs:
            for head in SOURCE_HEADS:
                base = form + '/' + v + '/' + head + '/'
                for lab in labs2:
                    yield base + lab
    # A3: numeral sweep of the version-carrying kinds
    for v in sweep_versions(tok):
        for head in ('development', 'stabilization', 'hotfix', 'release',
                     'q', 'user', 'wip'):
            yield head + '/' + v
        yield 'w/' + v + '/feature/' + tok['word']
        yield 'q/w/' + tok['wpr'] + '/' + v + '/bugfix/' + tok['ticket']
    for extra in ('master', 'main', 'HEAD', 'development/1.0\n',
                  'feature/x\n', 'w/1.0/feature/x\n', 'q/1.0\n',
                  'hotfix/1.0.0\n', 'stabilization/1.0.0\n',
                  'xdevelopment/1.0', 'development/1.0/x', 'q/1.0/x',
                  'user/', 'hotfix/', 'feature/ ', 'refs/heads/feature/x'):
        yield extra


def starts_known(name):
    head = name.split('/', 1)[0]
    return head in KNOWN_HEADS


# --------------------------------------------------------------------------
# the real code
# --------------------------------------------------------------------------
class Real:
    def __init__(self):
        import logging
        logging.disable(logging.CRITICAL)
        from bert_e.workflow.gitwaterflow import branches
        from bert_e import exceptions
        self.B = branches
        self.E = exceptions
        self.classes = [(n, getattr(branches, n)) for n in CLASS_KIND]

    def factory(self, name, repo=None):
        try:
            return self.B.branch_factory(repo, name)
        except self.E.UnrecognizedBranchPattern:
            return None

    def accepting(self, name):
        out = []
        for cname, cls in self.classes:
            try:
                cls(None, name)
                out.append(cname)
            except self.E.BranchNameInvalid:
                pass
            except self.E.UnrecognizedBranchPattern:
                # QueueBranch builds its destination through branch_factory
                out.append(cname + '!dst')
            except Exception as err:
                out.append('%s!%s' % (cname, type(err).__name__))
        return out


_real = [None]


def real():
    if _real[0] is None:
        _real[0] = Real()
    return _real[0]


COMPARED = {
    'development': ('version', 'major', 'minor'),
    'stabilization': ('version', 'major', 'minor', 'micro'),
    'hotfix': ('version', 'major', 'minor', 'micro'),
    'release': ('version', 'major', 'minor'),
    'feature': ('prefix', 'label', 'feature_branch'),
    'integration': ('version', 'major', 'minor', 'micro', 'hfrev', 'prefix',
                    'label', 'feature_branch'),
    'queue': ('version', 'major', 'minor', 'micro', 'hfrev'),
    'queue_integration': ('pr_id', 'version', 'major', 'minor', 'micro',
                          'hfrev', 'prefix', 'label', 'feature_branch'),
    'user': ('label',),
    'legacy_hotfix': ('label',),
}
_MISSING = '<no attribute>'


def compare_fields(kind, fields, obj):
    """-> list of (field, expected, got) that differ."""
    bad = []
    for f in COMPARED[kind]:
        got = getattr(obj, f, _MISSING)
        if got != fields[f] or type(got) is not type(fields[f]):
            bad.append((f, fields[f], got))
    if 'jira_issue_key' in fields and fields.get('_jira_canonical'):
        got = getattr(obj, 'jira_issue_key', _MISSING)
        if got != fields['jira_issue_key']:
            bad.append(('jira_issue_key', fields['jira_issue_key'], got))
    if 'dst_branch' in fields:
        got = getattr(getattr(obj, 'dst_branch', None), 'name', _MISSING)
        if got != fields['dst_branch']:
            bad.append(('dst_branch', fields['dst_branch'], got))
    return bad


def check_name(name, acc, R, sample_kind='-'):
    acc.evals += 1
    exp_kind, fields = oracle.classify(name)
    alts = fields.get('_alt', [])
    valid = oracle.valid_git_ref(name)
    try:
        obj = R.factory(name)
    except Exception as err:     # anything but UnrecognizedBranchPattern
        if not valid:
            acc.count('dont_care_invalid_git_ref')
            return
        acc.violation('factory-raised:' + type(err).__name__,
                      'branch_factory(%r) raised %s: %s' % (
                          name, type(err).__name__, str(err)[:200]),
                      {'part': 'name', 'name': name})
        return
    cname = type(obj).__name__ if obj is not None else None
    if obj is not None and cname not in CLASS_KIND:
        acc.violation('factory-returned-unlisted-class',
                      'branch_factory(%r) returned a %s' % (name, cname),
                      {'part': 'name', 'name': name})
        return
    got_kind = CLASS_KIND[cname] if cname else None
    if not valid:
        acc.count('dont_care_invalid_git_ref')
        if got_kind != exp_kind and got_kind not in alts:
            acc.count('dont_care_invalid_git_ref_outcome_differs')
            if len(acc.sets.get('invalid_ref_outcome_differs', ())) < 12:
                acc.seen('invalid_ref_outcome_differs',
                         '%r: real=%s oracle=%s' % (name, got_kind,
                                                    exp_kind))
        return
    accepting = R.accepting(name)

    # -- more than one class pattern accepts the name ----------------------
    acc.count('ambiguity_checked')
    if len(accepting) > 1:
        if sorted(accepting) == ['HotfixBranch', 'LegacyHotfixBranch']:
            if got_kind == 'hotfix':
                acc.count('overlap_hotfix_legacy_resolved_as_hotfix')
        else:
            acc.violation('ambiguous:' + '+'.join(sorted(accepting)),
                          '%r is accepted by the patterns of %s (factory '
                          'picks %s, grammar says %s)' % (
                              name, ', '.join(accepting), cname, exp_kind),
                          {'part': 'name', 'name': name})
    if cname and cname not in accepting:
        acc.violation('factory-class-rejects-on-its-own',
                      'branch_factory(%r) -> %s but %s(None, name) raises'
                      % (name, cname, cname), {'part': 'name', 'name': name})

    # -- destination flag, whatever the classes say ------------------------
    if obj is not None:
        acc.seen('kind_flags(destination,producer,consumer)',
                 '%s: %s %s %s' % (got_kind, obj.can_be_destination,
                                   obj.cascade_producer,
                                   obj.cascade_consumer))
    if obj is not None and obj.can_be_destination and \
            exp_kind not in oracle.DESTINATION_KINDS and \
            not any(a in oracle.DESTINATION_KINDS for a in alts):
        acc.violation('destination-flag-on-non-destination-name',
                      '%r (%s by the grammar) is a %s with '
                      'can_be_destination=True' % (name, exp_kind, cname),
                      {'part': 'name', 'name': name})

    # -- kind --------------------------------------------------------------
    if got_kind != exp_kind:
        if got_kind in alts:
            for why in fields.get('_silent', ['silent']):
                acc.count('dont_care_' + why)
            return
        acc.count('names_compared')
        acc.violation('kind:%s-instead-of-%s' % (got_kind or 'rejected',
                                                 exp_kind or 'rejected'),
                      'branch_factory(%r) -> %s; the grammar says %s '
                      '(patterns accepting it: %s)' % (
                          name, cname or 'UnrecognizedBranchPattern',
                          exp_kind or 'rejected', accepting),
                      {'part': 'name', 'name': name})
        return
    if alts:
        # an asserted-or-silent cell that took the primary reading
        for why in fields.get('_silent', ['silent']):
            acc.count('primary_reading_of_silent_' + why)
    acc.count('names_compared')
    acc.count('expected_' + (exp_kind or 'rejected'))
    if starts_known(name):
        acc.nontrivial_disjoint += 1
    if exp_kind is None:
        if sample_kind is None and starts_known(name) and \
                len(acc.samples) < 2 and len(name) % 7 == 3:
            acc.sample({'name': name, 'class': None, 'kind': 'rejected',
                        'patterns accepting it': accepting})
        return

    # -- fields ------------------------------------------------------------
    acc.count('fields_compared')
    if 'jira_issue_key' in fields:
        if not fields.get('_jira_canonical'):
            acc.count('dont_care_non_canonical_ticket_key')
        elif fields['jira_issue_key']:
            acc.count('ticket_key_compared')
    for f, e, g in compare_fields(exp_kind, fields, obj):
        acc.violation('field:%s.%s' % (exp_kind, f),
                      '%r parsed as %s has %s=%r, the grammar gives %r' % (
                          name, cname, f, g, e),
                      {'part': 'name', 'name': name})
    acc.count('destination_flag_checked')
    if bool(obj.can_be_destination) != (exp_kind in oracle.DESTINATION_KINDS):
        acc.violation('destination-flag:%s=%s' % (exp_kind,
                                                  obj.can_be_destination),
                      '%r is a %s with can_be_destination=%r' % (
                          name, cname, obj.can_be_destination),
                      {'part': 'name', 'name': name})
    if sample_kind == exp_kind and len(acc.samples) < 2 and \
            len(name) % 5 == 2:
        acc.sample({'name': name, 'class': cname, 'kind': exp_kind,
                    'fields': {k: v for k, v in fields.items()
                               if not k.startswith('_')},
                    'can_be_destination': obj.can_be_destination})


# --------------------------------------------------------------------------
# part B: round trip on a stub job
# --------------------------------------------------------------------------
class StubRepo:
    """git repository stub: every branch "exists" (checkout succeeds)."""
    def __init__(self):
        self.heads = {}

    def checkout(self, name):
        return None

    def get_branches_from_commit(self, commit, refresh_cache=False):
        return list(self.heads[commit])

    def __getattr__(self, name):
        raise AssertionError('StubRepo.%s used by the code under test' % name)


class StubHost:
    full_name = 'owner/slug'

    def __init__(self):
        self.asked = []

    def get_pull_requests(self, **kw):
        self.asked.append(kw)
        return []

    def __getattr__(self, name):
        raise AssertionError('StubHost.%s used by the code under test' % name)


class World:
    """One stub job re-used for every triple."""
    def __init__(self, tok, seed=0):
        self.seed = seed
        from vf.func import stubs
        from bert_e.job import PullRequestJob, CommitJob
        from bert_e.workflow import gitwaterflow as gwf
        from bert_e.workflow.gitwaterflow import integration, queueing
        self.R = real()
        self.gwf, self.integration, self.queueing = gwf, integration, queueing
        self.repo = StubRepo()
        self.host = StubHost()
        settings = stubs.make_settings()
        berte = stubs.StubBertE(settings, self.repo)
        berte.project_repo = self.host
        self.pr = stubs.StubPR()
        self.job = PullRequestJob(bert_e=berte, pull_request=self.pr)
        self.cjob = CommitJob(bert_e=berte, commit='c0ffee00c0ffee')
        self.NothingToDo = self.R.E.NothingToDo
        B = self.R.B
        # destinations, built by the real code ------------------------------
        self.flow = []        # [(dst branch, expected version tuple)]
        for fam in tok['fam']:
            a, b, c, d = fam
            self.flow.append((B.branch_factory(
                self.repo, 'stabilization/%d.%d.%d' % (a, b, c)), (a, b, c)))
            self.flow.append((B.branch_factory(
                self.repo, 'development/%d.%d' % (a, b)), (a, b)))
            self.flow.append((B.branch_factory(
                self.repo, 'development/%d' % a), (a,)))
        self.hotfixes = []
        for fam in tok['fam']:
            a, b, c, d = fam
            hf = B.branch_factory(self.repo, 'hotfix/%d.%d.%d' % (a, b, c))
            casc = B.BranchCascade()
            casc.add_branch(hf, hf)
            # the tag of the previous hotfix release x.y.z.(d-1)
            casc.update_versions('%d.%d.%d' % (a, b, c) if d == 1 else
                                 '%d.%d.%d.%d' % (a, b, c, d - 1))
            casc.dst_branches = [hf]
            self.hotfixes.append((hf, (a, b, c, d), casc))
        self.casc = B.BranchCascade()
        self.casc.dst_branches = [dst for dst, _ in self.flow]


def _tuple4(t):
    return tuple(t) + (None,) * (4 - len(t))


def check_parsed(acc, tag, branch, cls_name, version_t, src, pr, witness,
                 derived_from):
    """branch: object built by the real code from a derived name."""
    bad = []
    if type(branch).__name__ != cls_name:
        bad.append(('class', cls_name, type(branch).__name__))
    else:
        got = (getattr(branch, 'major', _MISSING),
               getattr(branch, 'minor', _MISSING),
               getattr(branch, 'micro', _MISSING),
               getattr(branch, 'hfrev', _MISSING))
        if got != _tuple4(version_t):
            bad.append(('version numbers', _tuple4(version_t), got))
        if getattr(branch, 'version', _MISSING) != vstr(version_t):
            bad.append(('version', vstr(version_t),
                        getattr(branch, 'version', _MISSING)))
        if src is not None and \
                getattr(branch, 'feature_branch', _MISSING) != src:
            bad.append(('feature_branch', src,
                        getattr(branch, 'feature_branch', _MISSING)))
        if pr is not None and getattr(branch, 'pr_id', _MISSING) != pr:
            bad.append(('pr_id', pr, getattr(branch, 'pr_id', _MISSING)))
    # the oracle's reading of the derived name must be the triple as well
    okind, of = oracle.classify(branch.name)
    want_kind = CLASS_KIND[cls_name]
    if okind != want_kind:
        bad.append(('grammar kind of derived name', want_kind, okind))
    else:
        if (of.get('major'), of.get('minor'), of.get('micro'),
                of.get('hfrev')) != _tuple4(version_t):
            bad.append(('grammar version of derived name',
                        _tuple4(version_t), branch.name))
        if src is not None and of.get('feature_branch') != src:
            bad.append(('grammar source of derived name', src, branch.name))
        if pr is not None and of.get('pr_id') != pr:
            bad.append(('grammar pr id of derived name', pr, branch.name))
    for what, e, g in bad:
        acc.violation('roundtrip-%s:%s' % (tag, what.replace(' ', '-')),
                      '%s derived %r from %s; %s is %r, expected %r' % (
                          tag, branch.name, derived_from, what, g, e),
                      witness)
    return not bad


def check_source(W, src, acc, sample_dst=None):
    """All triples of one source name."""
    R, job = W.R, W.job
    wit = {'part': 'roundtrip', 'src': src, 'seed': W.seed}
    U = R.E.UnrecognizedBranchPattern
    srcb = R.factory(src, W.repo)
    if type(srcb).__name__ != 'FeatureBranch':
        acc.violation('roundtrip-source-not-a-feature-branch',
                      'valid feature-like source %r is a %s for the real '
                      'code' % (src, type(srcb).__name__), wit)
        return
    W.pr.src_branch = src
    job.git.src_branch = srcb
    sample = None

    def derive(fn, tag, what):
        try:
            return list(fn(job))
        except U as err:
            acc.violation('roundtrip-%s:derived-name-unparsable' % tag,
                          '%s for source %r (%s): the derived name is '
                          'rejected by branch_factory: %s' % (
                              fn.__name__, src, what, str(err)[:120]), wit)
            return None

    def map_back(wb):
        """the real handle_commit, looking for the PR of a commit that is the
        tip of wb"""
        W.repo.heads[W.cjob.commit] = [wb.name]
        del W.host.asked[:]
        try:
            W.gwf.handle_commit(W.cjob)
        except W.NothingToDo:
            pass
        acc.count('handle_commit_mapping')
        asked = [kw.get('src_branch') for kw in W.host.asked]
        if asked != [[src]]:
            acc.violation('handle-commit:source-mapping',
                          'handle_commit on the tip of %r searched pull '
                          'requests with src_branch=%r, expected [[%r]]' % (
                              wb.name, asked, src), wit)

    def queue_int(wb, pr, vt, tag):
        W.pr.id = pr
        try:
            qi = W.queueing.get_queue_integration_branch(job, pr, wb)
        except U as err:
            acc.violation('roundtrip-qw:derived-name-unparsable',
                          'get_queue_integration_branch(pr %d, %r): %s' % (
                              pr, wb.name, str(err)[:120]), wit)
            return None
        acc.evals += 1
        acc.nontrivial_disjoint += 1
        acc.count('roundtrip_qw')
        check_parsed(acc, 'qw', qi, 'QueueIntegrationBranch', vt, src, pr,
                     wit, '(pr %d, version %s, source %r)' % (
                         pr, vstr(vt), src))
        return qi

    # -- development / stabilization destinations --------------------------
    job.git.cascade = W.casc
    job.git.dst_branch = W.flow[0][0]
    got = derive(W.integration.get_integration_branches, 'w', 'get')
    made = derive(W.integration.create_integration_branches, 'w', 'create')
    if got is not None and made is not None:
        if len(got) != len(W.flow) or len(made) != len(W.flow):
            acc.violation('roundtrip-w:branch-count',
                          '%d / %d integration branches for %d destinations'
                          % (len(got), len(made), len(W.flow)), wit)
        else:
            ghost = made[0]
            acc.count('roundtrip_ghost')
            if type(ghost).__name__ != 'GhostIntegrationBranch' or \
                    ghost.name != src or ghost.feature_branch != src or \
                    ghost.version != W.flow[0][0].version:
                acc.violation('roundtrip-ghost:fields',
                              'first integration branch of %r is %s %r '
                              'feature_branch=%r version=%r' % (
                                  src, type(ghost).__name__, ghost.name,
                                  getattr(ghost, 'feature_branch', None),
                                  getattr(ghost, 'version', None)), wit)
            for i, (dst, vt) in enumerate(W.flow):
                if dst.version != vstr(vt):
                    acc.violation('derived-version-shape',
                                  '%s.version is %r' % (dst.name,
                                                        dst.version), wit)
                for wb in ((got[i], made[i]) if i else (got[i],)):
                    acc.evals += 1
                    acc.count('roundtrip_w')
                    check_parsed(acc, 'w', wb, 'IntegrationBranch', vt, src,
                                 None, wit, '(version %s, source %r)' % (
                                     vstr(vt), src))
                    if wb.dst_branch is not dst or wb.src_branch is not srcb:
                        acc.violation('roundtrip-w:src-dst-attributes',
                                      '%r not bound to %s / %s' % (
                                          wb.name, src, dst.name), wit)
                map_back(got[i])
                for pr in PR_IDS:
                    qi = queue_int(made[i], pr, vt, 'qw')
                    if sample_dst is not None and sample is None and \
                            qi is not None and i == sample_dst % len(W.flow) \
                            and pr == PR_IDS[sample_dst % 3]:
                        sample = {'source': src, 'pr': pr,
                                  'destination': dst.name,
                                  'w': got[i].name, 'q/w': qi.name,
                                  'parsed back': [qi.pr_id, qi.version,
                                                  qi.feature_branch]}
    # -- hotfix destinations (single target, version x.y.z.n) --------------
    for hf, vt, casc in W.hotfixes:
        job.git.cascade = casc
        job.git.dst_branch = hf
        if hf.version != vstr(vt) or hf.hfrev != vt[3]:
            acc.violation('derived-version-shape',
                          '%s.version is %r (hfrev %r) after the tag of '
                          'hotfix release %d' % (hf.name, hf.version,
                                                 hf.hfrev, vt[3] - 1), wit)
            continue
        got = derive(W.integration.get_integration_branches, 'w', 'hotfix')
        made = derive(W.integration.create_integration_branches, 'w',
                      'hotfix')
        if got is None or made is None:
            continue
        if len(got) != 1 or len(made) != 1:
            acc.violation('roundtrip-w:branch-count',
                          '%d / %d integration branches for one hotfix '
                          'destination' % (len(got), len(made)), wit)
            continue
        acc.evals += 1
        acc.count('roundtrip_w')
        acc.count('roundtrip_hotfix_version')
        check_parsed(acc, 'w', got[0], 'IntegrationBranch', vt, src, None,
                     wit, '(version %s, source %r)' % (vstr(vt), src))
        map_back(got[0])
        for pr in PR_IDS:
            queue_int(made[0], pr, vt, 'qw')
    if sample:
        acc.sample(sample)


def check_queues(W, acc):
    """q/<version> for every destination; independent of the source."""
    U = W.R.E.UnrecognizedBranchPattern
    W.job.git.cascade = W.casc
    for dst, vt in W.flow + [(hf, vt) for hf, vt, _ in W.hotfixes]:
        wit = {'part': 'queue', 'dst': dst.name, 'seed': W.seed}
        try:
            q = W.queueing.get_queue_branch(W.job, dst, create=False)
        except U as err:
            acc.violation('roundtrip-q:derived-name-unparsable',
                          'get_queue_branch(%s): %s' % (dst.name, err), wit)
            continue
        acc.evals += 1
        acc.nontrivial_disjoint += 1
        acc.count('roundtrip_q')
        ok = check_parsed(acc, 'q', q, 'QueueBranch', vt, None, None, wit,
                          'destination %s' % dst.name)
        dname = getattr(getattr(q, 'dst_branch', None), 'name', None)
        if dname != dst.name:
            acc.violation('roundtrip-q:destination',
                          '%r (queue of %s) has dst_branch %r' % (
                              q.name, dst.name, dname), wit)
        elif ok:
            acc.seen('queue_of', '%s -> %s' % (dst.name, q.name))


def check_dev_sources(W, tok, acc):
    """Don't-care, reported: development / stabilization names as sources."""
    U = W.R.E.UnrecognizedBranchPattern
    job = W.job
    job.git.cascade = W.casc
    for fam in tok['fam']:
        for src in ('development/%d.%d' % fam[:2], 'development/%d' % fam[0],
                    'stabilization/%d.%d.%d' % fam[:3]):
            srcb = W.R.factory(src, W.repo)
            W.pr.src_branch = src
            job.git.src_branch = srcb
            job.git.dst_branch = W.flow[0][0]
            try:
                list(W.integration.get_integration_branches(job))
                acc.count('dont_care_dev_or_stab_source_w_name_parsed')
            except U:
                acc.count('dont_care_dev_or_stab_source_w_name_unparsable')
                acc.seen('dev_or_stab_source_unparsable', src)


# --------------------------------------------------------------------------
def plan(tier, seed):
    return [{} for _ in range(16)]


def sources_of(tok, tier):
    """(prefix, label) of every valid feature-like source, each once."""
    labs = [lab for lab in labels(tok, tier)
            if oracle.classify('feature/' + lab)[0] == 'feature' and
            oracle.valid_git_ref('feature/' + lab)]
    for i, lab in enumerate(labs):
        for j, prefix in enumerate(oracle.FEATURE_PREFIXES):
            yield i * len(oracle.FEATURE_PREFIXES) + j, prefix + '/' + lab


def run_shard(spec, acc):
    tier, shard, n, seed = (spec['tier'], spec['shard'], spec['nshards'],
                            spec['seed'])
    only = spec.get('only')          # debugging: 'names' / 'roundtrip'
    limit = spec.get('limit')
    tok = tokens(seed)
    R = real()
    if not only and not limit:
        # system-level companion: the names round-trip through the repository
        from vf.world import c18_world
        c18_world.run(spec, acc)
    # -- part A ------------------------------------------------------------
    if only in (None, 'names'):
        seen = set()
        done = 0
        for name in all_names(tok, tier):
            if zlib.crc32(name.encode('utf-8')) % n != shard:
                continue
            if name in seen:
                continue
            seen.add(name)
            done += 1
            check_name(name, acc, R, sample_kind=(
                oracle.KINDS + (None,) * n)[shard])
            if limit and done >= limit:
                break
        acc.count('distinct_names', len(seen))
        if not limit:
            acc.exhaustive['names of the bounded grammar (%s tier)'
                           % tier] = True
    # -- part B ------------------------------------------------------------
    if only in (None, 'roundtrip'):
        W = World(tok, seed)
        if shard == 0:
            check_queues(W, acc)
            check_dev_sources(W, tok, acc)
        done = 0
        for idx, src in sources_of(tok, tier):
            if idx % n != shard:
                continue
            done += 1
            check_source(W, src, acc, sample_dst=(
                shard if done == 100 + 7 * shard else None))
            if limit and done * 36 >= limit:
                break
        acc.count('sources', done)
        if not limit:
            acc.exhaustive['(pr id, version, source) triples of the bounded '
                           'grammar (%s tier)' % tier] = True


def replay(w, acc):
    if w.get('c18w'):
        from vf.world import c18_world
        return c18_world.replay(w, acc)
    R = real()
    if w.get('part') == 'name':
        check_name(w['name'], acc, R)
        return
    from vf.common import env
    seed = w.get('seed', env.seed())
    W = World(tokens(seed), seed)
    if w.get('part') == 'queue':
        check_queues(W, acc)
    else:
        check_source(W, w['src'], acc)
