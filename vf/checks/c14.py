"""C14 - HTTP entry points enqueue work only for authorised callers.

The real Flask application (bert_e.server.setup_server) is driven with the
Flask test client over the full matrix of the quantifier; after every request
the HTTP status and the delta of bert_e.task_queue are compared with a table
written from the property statement and bert_e/docs/API_DOC.md.
"""
import copy
import json
import random
from urllib.parse import quote

ID = 'C14'
LEVEL = 'exploration'
EXHAUSTIVE_MEANS_ALL = True
RULE = ('every cell of: [API] each documented URL x {GET,POST,PUT,PATCH,'
        'DELETE} x session {none, none written as test_server does, user, '
        'admin - both written directly and obtained through /api/auth} x '
        'parameter class (branch names: the 3 accepted forms, every '
        'one-character insertion (16-letter alphabet) / deletion / '
        'replacement of each, major-only, w/, q/, empty ...; branch_from '
        'hex / branch / garbage / non-string; pr ids -1, 0, 1, 2**31, "x" '
        '...; request bodies: {}, none, null, unvalidated keys, non-object); '
        '[forms] 6 management forms x 5 methods x sessions x CSRF '
        '{own, foreign, absent, garbage} x field classes, the form\'s own '
        'HTTP call routed back into the application; [webhooks] /bitbucket '
        'and /github x credentials (none, 8 wrong, right) x repository '
        'identity (match, other owner, other slug, both, near misses, '
        'absent) x every handled event type and 4-5 unhandled ones; [login] '
        '/api/auth x token class x organisation on/off followed by three '
        'probes of the session.  Cells are enumerated without repetition '
        '(a set of their descriptors) and partitioned over the shards; a '
        'cell is non-trivial when its expected outcome is an acceptance, or '
        'a refusal with exactly one failing condition other than the HTTP '
        'method (the request would be accepted if that condition held); '
        '[two requests at once] 6 acceptable API requests A x 9 requests B '
        '(acceptable by another admin, ill-formed, unauthorised), B run to '
        'completion in a second thread before EVERY line event of A inside '
        'bert_e/server (one preemption): each request keeps its own status '
        'and the queue holds exactly one job per accepted request, with '
        'that request\'s user, url arguments and validated body')
ASSUMPTIONS = [
    'Bert-E is the real class with a replaced constructor (real put_job, '
    'real task_queue, settings from the real SettingsSchema); no worker '
    'thread runs, jobs are only inspected',
    'only requests.adapters.HTTPAdapter.send is replaced: localhost goes '
    'back into the same Flask application, api.bitbucket.org/api.github.com '
    'are answered by a minimal simulated host, anything else fails',
    'flask-session is re-initialised on a private directory (the server '
    'hard-codes /tmp/bert-e-sessions, shared and pruned machine-wide)',
    'status codes per refusal reason come from API_DOC.md (401, 403, 400; '
    '404 when the URL does not route; 405 wrong method); with several '
    'failing conditions any of their codes is accepted; webhooks with a '
    'foreign repository: any 4xx/5xx',
    'don\'t-cares (either outcome accepted, but a created job must still '
    'carry exactly the validated parameters and the session user): '
    'hotfix/x.y.z (not in the API doc), leading zeros and non-ASCII digits '
    'in version numbers or pr ids, empty branch_from, requests without a '
    'body or with a null / malformed / non-object body, unknown JSON keys '
    '(refuse or drop them), form posts from an authorised session with a '
    'foreign / absent CSRF token (CSRF is not part of the statement), '
    'pull_request "closed", issue_comment on a plain issue, check_suite '
    'without runs, /bitbucket on a github-configured instance, an admin '
    'account id used as a login handle',
]
MIN_NONTRIVIAL = 5000
REQUIRED_COUNTERS = {
    'api_expected_accept': 100, 'api_refuse_unauthenticated': 200,
    'api_refuse_not_admin': 200, 'api_refuse_ill_formed': 500,
    'api_refuse_method': 100, 'job_parameters_compared': 300,
    'form_expected_accept': 10, 'form_refuse_auth': 50,
    'form_chain_reached_api': 10,
    'hook_expected_job': 20, 'hook_refuse_credentials': 200,
    'hook_refuse_identity': 100, 'hook_expected_ignored': 10,
    'login_cells': 10, 'routes_checked': 1,
    'c14c_interleavings': 1000, 'c14c_refused_request_left_nothing': 300,
    'c14c_logout_cells': 16,
}
SHARD_TIMEOUT = {'quick': 600, 'thorough': 1800}

METHODS = ('GET', 'POST', 'PUT', 'PATCH', 'DELETE')
DIGITS = '0123456789'
ANY_ERROR = frozenset(range(400, 600))
REDIRECTS = frozenset((301, 302, 303, 307, 308))

# --------------------------------------------------------------------------
# the oracle's tables (API_DOC.md + the statement)
# --------------------------------------------------------------------------
# url template -> method -> (required level, job type name, module)
API_TABLE = {
    '/api/auth': {'GET': ('open', None, None)},
    '/api/jobs': {'GET': ('auth', None, None)},
    '/api/jobs/<job_id>': {'GET': ('auth', None, None)},
    '/api/pull-requests/<pr_id>': {
        'POST': ('auth', 'EvalPullRequestJob',
                 'bert_e.jobs.eval_pull_request')},
    '/api/gwf/branches/<branch>': {
        'POST': ('admin', 'CreateBranchJob', 'bert_e.jobs.create_branch'),
        'DELETE': ('admin', 'DeleteBranchJob', 'bert_e.jobs.delete_branch')},
    '/api/gwf/queues': {
        'PATCH': ('admin', 'ForceMergeQueuesJob',
                  'bert_e.jobs.force_merge_queues'),
        'POST': ('auth', 'RebuildQueuesJob', 'bert_e.jobs.rebuild_queues'),
        'DELETE': ('admin', 'DeleteQueuesJob',
                   'bert_e.jobs.delete_queues')},
}
FAMILY_TEMPLATE = {
    'auth': '/api/auth', 'jobs': '/api/jobs', 'job': '/api/jobs/<job_id>',
    'pr': '/api/pull-requests/<pr_id>',
    'branch': '/api/gwf/branches/<branch>', 'queues': '/api/gwf/queues'}
# form -> (API url template, API method, fields)
FORM_TABLE = {
    'EvalPullRequestForm': ('/api/pull-requests/<pr_id>', 'POST',
                            ('pr_id',)),
    'CreateBranchForm': ('/api/gwf/branches/<branch>', 'POST',
                         ('branch', 'branch_from')),
    'DeleteBranchForm': ('/api/gwf/branches/<branch>', 'DELETE',
                         ('branch',)),
    'ForceMergeQueuesForm': ('/api/gwf/queues', 'PATCH', ()),
    'RebuildQueuesForm': ('/api/gwf/queues', 'POST', ()),
    'DeleteQueuesForm': ('/api/gwf/queues', 'DELETE', ()),
}
OTHER_TABLE = {'/bitbucket': ('POST',), '/github': ('POST',),
               '/manage': ('GET',), '/manage/<error>': ('GET',)}
LEVEL_OF = {'none': 0, 'none_tx': 0, 'user_tx': 1, 'user_login': 1,
            'admin_tx': 2, 'admin_login': 2, 'admin2_tx': 2}
NEED = {'open': 0, 'auth': 1, 'admin': 2}


# --------------------------------------------------------------------------
# parameter classification, plain Python, from the documentation
# --------------------------------------------------------------------------
def _number(text):
    """'ok' plain ASCII decimal, 'either' exotic spelling of a number that
    the documentation does not rule on, 'bad' otherwise."""
    if text == '':
        return 'bad'
    if all(ch in DIGITS for ch in text):
        return 'either' if (len(text) > 1 and text[0] == '0') else 'ok'
    if all(ch.isdigit() for ch in text):
        return 'either'
    return 'bad'


def classify_branch(name, only_development=False):
    """development/x.y and stabilization/x.y.z are documented; hotfix/x.y.z
    is not (either)."""
    parts = name.split('/')
    if len(parts) != 2:
        return 'bad'
    want = {'development': 2, 'stabilization': 3, 'hotfix': 3}.get(parts[0])
    if want is None or (only_development and parts[0] != 'development'):
        return 'bad'
    comps = parts[1].split('.')
    if len(comps) != want:
        return 'bad'
    kinds = [_number(c) for c in comps]
    if 'bad' in kinds:
        return 'bad'
    if 'either' in kinds or parts[0] == 'hotfix':
        return 'either'
    return 'ok'


def classify_pr_id(text):
    """-> (class, value)."""
    k = _number(text)
    if k == 'bad':
        stripped = text.strip()
        if stripped != text and _number(stripped) != 'bad' and \
                int(stripped) >= 1:
            return 'either', int(stripped)    # surrounding blanks
        return 'bad', None
    value = int(text)
    if value < 1:
        return 'bad', None
    return k, value


def classify_branch_from(value):
    """-> 'ok' | 'either' | 'bad' | 'badtype'."""
    if not isinstance(value, str):
        return 'badtype'
    if value == '':
        return 'either'
    if all(ch in '0123456789abcdefABCDEF' for ch in value):
        return 'ok'
    k = classify_branch(value, only_development=True)
    return k


def has_empty_segment(name):
    return name == '' or name.startswith('/') or '//' in name or \
        name.endswith('/')


# --------------------------------------------------------------------------
# bodies
# --------------------------------------------------------------------------
def body_cases(cfg):
    """name -> descriptor.  mode json: value is serialised; raw: text sent as
    is; absent: no body."""
    return {
        'canonical': {'mode': 'json', 'value': {}},
        'absent-json-ctype': {'mode': 'absent', 'ctype': True},
        'absent-no-ctype': {'mode': 'absent', 'ctype': False},
        'null': {'mode': 'raw', 'text': 'null'},
        'malformed': {'mode': 'raw', 'text': '{"a": '},
        'array': {'mode': 'json', 'value': [1, 2]},
        'string': {'mode': 'json', 'value': 'text'},
        'extra-key': {'mode': 'json', 'value': {'zz_unvalidated': 1}},
        'settings-shadow': {'mode': 'json', 'value': {
            'robot': 'evil-robot', 'admins': [cfg['user']]}},
        'param-override': {'mode': 'json', 'value': {
            'branch': 'development/99.99', 'pr_id': 777777}},
    }


def branch_from_cases(cfg):
    return {
        'bf:hex': 'abc123def4', 'bf:HEX': 'ABCDEF0123456789',
        'bf:sha40': cfg['sha_ok'], 'bf:digits': '1234',
        'bf:dev-branch': 'development/4.3',
        'bf:empty': '', 'bf:word': 'invalid', 'bf:hex-then-word': 'abc123xyz',
        'bf:stab-branch': 'stabilization/4.3.0',
        'bf:dev-major-only': 'development/4',
        'bf:dev-prefixed': 'origin/development/4.3',
        'bf:trailing-newline-hex': 'abc123\n',
        'bf:trailing-newline-branch': 'development/4.3\n',
        'bf:leading-space': ' abc123', 'bf:tag-like': 'v4.3.0',
        'bf:int': 5, 'bf:null': None, 'bf:list': ['abc123'],
        'bf:bool': True,
    }


def validated_body(family, method, body):
    """-> (class, [acceptable parameter dicts coming from the body], tag).
    class: 'ok' (must be accepted), 'either', 'bad' (400), 'badtype' (any
    error status); tag names the kind of don't-care."""
    mode = body['mode']
    if mode == 'absent':
        return 'either', [{}], 'no-body'
    if mode == 'raw':
        return 'either', [{}], 'null-or-malformed-body'
    value = body['value']
    if not isinstance(value, dict):
        return 'either', [{}], 'non-object-json-body'
    if value == {}:
        return 'ok', [{}], None
    params = {}
    verdict, tag = 'ok', None
    alternatives = None
    for key, val in value.items():
        if key == 'branch_from' and family == 'branch' and method == 'POST':
            k = classify_branch_from(val)
            if k in ('bad', 'badtype'):
                return k, [], None
            if k == 'either':
                verdict, tag = 'either', tag or 'empty-branch-from'
                alternatives = [{}, {'branch_from': val}]
            else:
                params['branch_from'] = val
        else:
            # unknown key: refuse the request or drop the key
            verdict, tag = 'either', 'unvalidated-json-key'
    if alternatives is not None:
        return verdict, [dict(params, **a) for a in alternatives], tag
    return verdict, [params], tag


# --------------------------------------------------------------------------
# branch names around the grammar
# --------------------------------------------------------------------------
ALPHABET = ['0', '7', 'a', 'Z', '.', '/', '-', '_', ' ', '\n', '\t',
            '٣', '%', '+', '?', '#']
REPLACEMENTS = ['1', 'x', '.', '/', ' ', '٣']


def branch_names(cfg, seed):
    n = seed % 89
    x, y, z = 4 + n % 6, 1 + n % 9, n % 4
    bases = ['development/%d.%d' % (x, y),
             'stabilization/%d.%d.%d' % (x, y, z),
             'hotfix/%d.%d.%d' % (10 + x, y, z)]
    names = []
    for base in bases:
        names.append(base)
        for i in range(len(base) + 1):
            for ch in ALPHABET:
                names.append(base[:i] + ch + base[i:])
        for i in range(len(base)):
            names.append(base[:i] + base[i + 1:])
            for ch in REPLACEMENTS:
                if ch != base[i]:
                    names.append(base[:i] + ch + base[i + 1:])
    v2, v3 = '%d.%d' % (x, y), '%d.%d.%d' % (x, y, z)
    names += [
        '', 'development', 'development/', 'development/%d' % x,
        'stabilization/' + v2, 'stabilization/%d' % x, 'development/' + v3,
        'hotfix/' + v2, 'hotfix/%d' % x, 'hotfix/%s.1' % v3,
        'stabilization/%s.1' % v3,
        'w/%s/bugfix/X-1' % v2, 'w/' + v2, 'q/' + v2, 'q/' + v3,
        'q/w/12/%s/bugfix/X-1' % v2, 'feature/foo', 'bugfix/X-1',
        'improvement/X-2', 'user/me/x', 'release/' + v2, 'master', 'main',
        'DEVELOPMENT/' + v2, 'Development/' + v2, 'Stabilization/' + v3,
        'development/%s/' % v2, '/development/' + v2, 'development//' + v2,
        'development/%d..%d' % (x, y), 'development/.%d' % y,
        'development/%d.' % x, 'development/-%d.%d' % (x, y),
        'development/+%d.%d' % (x, y), 'development/%d.%d.' % (x, y),
        'development/%d,%d' % (x, y), 'development/%d.x' % x,
        'development/x.y', 'development/%s ' % v2, ' development/' + v2,
        'development/%s\n' % v2, 'stabilization/%s\n' % v3,
        'origin/development/' + v2, 'refs/heads/development/' + v2,
        'development/%s;id' % v2, '../development/' + v2,
        'development/%s/../%d.%d' % (v2, x + 1, 0),
        'development/%s/stabilization/%s' % (v2, v3),
        'development/0%d.%d' % (x, y), 'development/%d.0%d' % (x, y),
        'development/0.0', 'stabilization/0.0.0',
        'development/٧.٤', 'development/%d.%d' % (10 ** 9, y),
        'development/%s%%0a' % v2, 'development/%s%%00' % v2,
    ]
    out, seen = [], set()
    for name in names:
        if name not in seen:
            seen.add(name)
            out.append(name)
    return bases, out


def pr_id_texts(cfg):
    a = cfg['pr_ids'][0]
    return ['%d' % a, '1', '0', '-1', '-%d' % a, 'x', '', str(2 ** 31),
            str(2 ** 31 - 1), str(2 ** 64), '0%d' % a, '00', '+%d' % a,
            '%d.0' % a, '%d/' % a, ' %d' % a, '%d ' % a, '1e3', '0x10',
            '٣', '%dx' % a, 'null', '%d\n' % a]


# --------------------------------------------------------------------------
# the cells
# --------------------------------------------------------------------------
BB_SESSIONS = ('none', 'none_tx', 'user_tx', 'admin_tx', 'user_login',
               'admin_login')
GH_SESSIONS = ('none', 'user_login', 'admin_login')
CREDS = ('none', 'right', 'right-lowercase-scheme', 'wrong-password',
         'wrong-login', 'both-wrong', 'empty-password', 'swapped',
         'password-prefix', 'bearer-scheme', 'not-base64', 'oauth-client')
IDENTITIES = ('match', 'other-owner', 'other-slug', 'both-other',
              'owner-suffixed', 'slug-prefix-only', 'swapped', 'absent')
BB_EVENTS = (
    [('repo:commit_status_%s' % e, s) for e in ('created', 'updated')
     for s in ('SUCCESSFUL', 'FAILED', 'STOPPED', 'INPROGRESS')] +
    [('pullrequest:%s' % e, None) for e in (
        'created', 'updated', 'approved', 'unapproved', 'fulfilled',
        'rejected', 'comment_created', 'comment_updated')] +
    [('repo:push', None), ('repo:fork', None), ('issue:created', None),
     ('repo:commit_comment_created', None), ('project:updated', None)])
GH_EVENTS = (
    [('pull_request', a) for a in ('opened', 'synchronize', 'edited',
                                   'reopened', 'labeled', 'closed')] +
    [('issue_comment', k) for k in ('pr', 'plain-issue', 'unknown-pr')] +
    [('pull_request_review', a) for a in ('submitted', 'dismissed')] +
    [('status', s) for s in ('success', 'failure', 'error', 'pending')] +
    [('check_suite', k) for k in ('ok', 'running', 'norun')] +
    [('push', None), ('ping', None), ('issues', None), ('create', None),
     (None, None)])


def build_cells(seed):
    from vf.http import c14_app
    cfg = c14_app.config(seed)
    cells = []
    add = cells.append
    bodies = body_cases(cfg)
    bases, names = branch_names(cfg, seed)

    def api(world, method, session, family, arg, bname, body):
        add({'kind': 'api', 'world': world, 'method': method,
             'session': session, 'family': family, 'arg': arg,
             'body_name': bname, 'body': body})

    # --- API, bitbucket-configured instance: the full matrix -----------------
    for method in METHODS:
        for session in BB_SESSIONS:
            for bname in ('canonical', 'absent-json-ctype',
                          'absent-no-ctype'):
                api('bb', method, session, 'jobs', None, bname,
                    bodies[bname])
            for arg in ('unknown', 'done-job', 'garbage'):
                api('bb', method, session, 'job', arg, 'absent-json-ctype',
                    bodies['absent-json-ctype'])
            for text in pr_id_texts(cfg):
                api('bb', method, session, 'pr', text, 'canonical',
                    bodies['canonical'])
            for bname, body in bodies.items():
                if bname != 'canonical':
                    api('bb', method, session, 'pr',
                        str(cfg['pr_ids'][1]), bname, body)
                api('bb', method, session, 'queues', None, bname, body)
            for name in names:
                api('bb', method, session, 'branch', name, 'canonical',
                    bodies['canonical'])
            for base in bases[:2] + ['feature/foo']:
                for bname, body in bodies.items():
                    if bname != 'canonical':
                        api('bb', method, session, 'branch', base, bname,
                            body)
                for bname, val in branch_from_cases(cfg).items():
                    api('bb', method, session, 'branch', base, bname,
                        {'mode': 'json', 'value': {'branch_from': val}})
            api('bb', method, session, 'branch', bases[0], 'bf+extra',
                {'mode': 'json', 'value': {'branch_from': 'abc123',
                                           'zz_unvalidated': 'x'}})
            for tok in ('', 'tok-unknown'):
                api('bb', method, session, 'auth', tok, 'absent-json-ctype',
                    bodies['absent-json-ctype'])
    # --- API, github-configured instance: reduced ----------------------------
    for method in METHODS:
        for session in GH_SESSIONS:
            api('gh', method, session, 'jobs', None, 'absent-json-ctype',
                bodies['absent-json-ctype'])
            for text in (str(cfg['pr_ids'][0]), '0', 'x'):
                api('gh', method, session, 'pr', text, 'canonical',
                    bodies['canonical'])
            for bname in ('canonical', 'extra-key'):
                api('gh', method, session, 'queues', None, bname,
                    bodies[bname])
            for name in bases + ['development/4', 'w/4.3/bugfix/x']:
                api('gh', method, session, 'branch', name, 'canonical',
                    bodies['canonical'])
            api('gh', method, session, 'branch', bases[1], 'bf:hex',
                {'mode': 'json', 'value': {'branch_from': 'abc123'}})
            api('gh', method, session, 'branch', bases[1], 'bf:word',
                {'mode': 'json', 'value': {'branch_from': 'invalid'}})

    # --- management page and forms -------------------------------------------
    form_sessions = ('none', 'none_tx', 'user_tx', 'admin_tx', 'user_login',
                     'admin_login')
    for world in ('bb', 'gh'):
        sessions = form_sessions if world == 'bb' else GH_SESSIONS
        for method in METHODS:
            for session in sessions:
                for path in ('/manage', '/manage/CreateBranchForm'):
                    add({'kind': 'manage', 'world': world, 'method': method,
                         'session': session, 'path': path})
    good_pr = str(cfg['pr_ids'][0])
    branch_fields = [{'branch': b} for b in bases] + [
        {'branch': b} for b in (
            'development/4', 'stabilization/4.3', 'w/4.3/bugfix/x', 'q/4.3',
            'feature/foo', 'development/4.3.1', 'development/4.x',
            'Development/4.3', ' development/4.3', 'development/4.3 ',
            'development/4.3\n', 'development/4.3/', 'development//4.3',
            'development/4.3?x=1', 'development/4.3#frag', '')] + [{}]
    form_fields = {
        'EvalPullRequestForm': [{'pr_id': t} for t in (
            good_pr, '0', '-1', 'x', '', str(2 ** 31), '0' + good_pr,
            ' %s ' % good_pr, good_pr + '.0', good_pr + '/../1')] + [{}],
        'CreateBranchForm': [dict(f, branch_from='') for f in branch_fields
                             if f] + [{'branch': b} for b in bases] + [{}] + [
            {'branch': bases[0], 'branch_from': v} for v in (
                '', 'abc123', 'ABCDEF', 'development/4.3', 'invalid',
                'abc123\n', 'stabilization/4.3.0', ' abc123')],
        'DeleteBranchForm': branch_fields,
        'ForceMergeQueuesForm': [{}, {'robot': 'evil', 'branch': bases[0]}],
        'RebuildQueuesForm': [{}, {'robot': 'evil', 'pr_id': '3'}],
        'DeleteQueuesForm': [{}, {'robot': 'evil'}],
    }
    for form, fields_list in form_fields.items():
        for session in form_sessions:
            for csrf in ('own', 'foreign', 'absent', 'garbage'):
                if csrf == 'own' and LEVEL_OF[session] == 0:
                    continue
                for fields in fields_list:
                    add({'kind': 'form', 'world': 'bb', 'method': 'POST',
                         'form': form, 'session': session, 'csrf': csrf,
                         'fields': fields})
            for method in METHODS:
                if method != 'POST':
                    add({'kind': 'form', 'world': 'bb', 'method': method,
                         'form': form, 'session': session,
                         'csrf': 'own' if LEVEL_OF[session] else 'absent',
                         'fields': fields_list[0]})
        for session in GH_SESSIONS:
            for csrf in ('own', 'foreign'):
                if csrf == 'own' and LEVEL_OF[session] == 0:
                    continue
                add({'kind': 'form', 'world': 'gh', 'method': 'POST',
                     'form': form, 'session': session, 'csrf': csrf,
                     'fields': fields_list[0]})

    # --- webhooks ----------------------------------------------------------------
    for cred in CREDS:
        for ident in IDENTITIES:
            for i, (event, sub) in enumerate(BB_EVENTS):
                add({'kind': 'hook', 'world': 'bb', 'route': '/bitbucket',
                     'method': 'POST', 'cred': cred, 'identity': ident,
                     'event': event, 'sub': sub,
                     'pr_id': cfg['pr_ids'][i % 2],
                     'sha': cfg['sha_ok'] if i % 2 else cfg['sha_running']})
            for i, (event, sub) in enumerate(GH_EVENTS):
                add({'kind': 'hook', 'world': 'gh', 'route': '/github',
                     'method': 'POST', 'cred': cred, 'identity': ident,
                     'event': event, 'sub': sub,
                     'pr_id': cfg['pr_ids'][i % 2], 'sha': cfg['sha_ok']})
    for cred in ('none', 'right', 'wrong-password'):
        for method in METHODS:
            if method == 'POST':
                continue
            add({'kind': 'hook', 'world': 'bb', 'route': '/bitbucket',
                 'method': method, 'cred': cred, 'identity': 'match',
                 'event': 'pullrequest:updated', 'sub': None,
                 'pr_id': cfg['pr_ids'][0], 'sha': cfg['sha_ok']})
            add({'kind': 'hook', 'world': 'gh', 'route': '/github',
                 'method': method, 'cred': cred, 'identity': 'match',
                 'event': 'pull_request', 'sub': 'opened',
                 'pr_id': cfg['pr_ids'][0], 'sha': cfg['sha_ok']})
        # the other host's route
        for ident in ('match', 'other-owner'):
            add({'kind': 'hook', 'world': 'bb', 'route': '/github',
                 'method': 'POST', 'cred': cred, 'identity': ident,
                 'event': 'pull_request', 'sub': 'opened',
                 'pr_id': cfg['pr_ids'][0], 'sha': cfg['sha_ok']})
            add({'kind': 'hook', 'world': 'gh', 'route': '/bitbucket',
                 'method': 'POST', 'cred': cred, 'identity': ident,
                 'event': 'pullrequest:updated', 'sub': None,
                 'pr_id': cfg['pr_ids'][0], 'sha': cfg['sha_ok']})

    # --- login flow ----------------------------------------------------------------
    toks = sorted(c14_app.tokens(cfg)) + ['tok-unknown', '']
    for world in ('bb', 'gh', 'bborg', 'ghorg'):
        for tok in toks:
            add({'kind': 'login', 'world': world, 'token': tok,
                 'then': None})
        add({'kind': 'login', 'world': world, 'token': 'tok-admin',
             'then': 'tok-user'})
        add({'kind': 'login', 'world': world, 'token': 'tok-user',
             'then': 'tok-admin'})
    unique, keys = [], set()
    for cell in cells:
        key = json.dumps(cell, sort_keys=True)
        if key not in keys:
            keys.add(key)
            unique.append(cell)
    random.Random(seed).shuffle(unique)
    return cfg, unique


def plan(tier, seed):
    return [{} for _ in range(16)]


# --------------------------------------------------------------------------
# oracle
# --------------------------------------------------------------------------
def _spec(verdict, statuses, reasons, job=None, loose_2xx=False,
          detail=None):
    return {'verdict': verdict, 'statuses': statuses, 'reasons': reasons,
            'job': job, 'loose_2xx': loose_2xx, 'detail': detail}


def _auth_reason(session, level):
    have = LEVEL_OF[session]
    if have >= NEED[level]:
        return None
    return 'unauthenticated' if have == 0 else 'not-admin'


STATUS_OF = {'unauthenticated': {401}, 'not-admin': {403}, 'method': {405},
             'ill-formed-parameter': {400, 404},
             'ill-formed-body-parameter': {400},
             'ill-typed-body-parameter': set(ANY_ERROR),
             'bad-credentials': {401}, 'foreign-repository': set(ANY_ERROR),
             'other-host': set(ANY_ERROR), 'bad-token': set(ANY_ERROR)}


def api_oracle(cell, cfg, session_user):
    family, method = cell['family'], cell['method']
    entry = API_TABLE[FAMILY_TEMPLATE[family]].get(method)
    reasons, either = [], []
    statuses = set()
    url_params = {}
    arg = cell['arg']
    detail = None
    if family == 'pr':
        k, value = classify_pr_id(arg)
        if k == 'bad':
            reasons.append('ill-formed-parameter')
        else:
            url_params['pr_id'] = value
            if k == 'either':
                either.append('pr-id-spelling')
    elif family == 'branch':
        k = classify_branch(arg)
        if k == 'bad':
            reasons.append('ill-formed-parameter')
            if has_empty_segment(arg):
                statuses |= REDIRECTS       # path normalisation
        else:
            url_params['branch'] = arg
            if k == 'either':
                either.append('branch-spelling')
    if family == 'job' and arg == 'garbage':
        statuses |= {404}               # the URL may not route at all
    if entry is None:
        if either:
            statuses |= {404}
        reasons.append('method')
        if LEVEL_OF[cell['session']] == 0:
            statuses |= {401}
        for r in reasons:
            statuses |= STATUS_OF[r]
        return _spec('refuse', statuses, reasons)
    level, job_class, job_module = entry
    r = _auth_reason(cell['session'], level)
    if r:
        reasons.append(r)
    if family == 'auth':
        # no usable token in these cells (the login cells do the rest)
        reasons.append('bad-token')
    body_params = [{}]
    if job_class is not None:
        k, body_params, tag = validated_body(family, method, cell['body'])
        if k == 'bad':
            reasons.append('ill-formed-body-parameter')
            bf = cell['body']['value'].get('branch_from')
            if bf.endswith('\n') and \
                    classify_branch_from(bf[:-1]) == 'ok':
                detail = 'well-formed-plus-trailing-newline'
        elif k == 'badtype':
            reasons.append('ill-typed-body-parameter')
        elif k == 'either':
            either.append(tag)
    if reasons:
        for r in reasons:
            statuses |= STATUS_OF[r]
        if either:
            # e.g. no session + a request without a body or an oddly spelt
            # pr id: the framework may answer 400 / 404 for those before the
            # authentication is looked at
            statuses |= {400, 404}
        return _spec('refuse', statuses, reasons, detail=detail)
    if job_class is None:
        ok = {200}
        if family == 'job' and cell['arg'] != 'done-job':
            ok = {404}
        return _spec('accept', ok, [], None)
    job = {'class': job_class, 'module': job_module,
           'params': [dict(p, **url_params) for p in body_params],
           'kwargs': url_params, 'user': session_user}
    if either:
        return _spec('either', {202}, either, job)
    return _spec('accept', {202}, [], job)


def manage_oracle(cell):
    reasons = []
    statuses = set()
    if cell['method'] != 'GET':
        reasons.append('method')
        if LEVEL_OF[cell['session']] == 0:
            statuses |= {401}
    elif LEVEL_OF[cell['session']] == 0:
        reasons.append('unauthenticated')
    if reasons:
        for r in reasons:
            statuses |= STATUS_OF[r]
        return _spec('refuse', statuses, reasons)
    return _spec('accept', {200}, [], None)


def form_oracle(cell, cfg, session_user):
    template, api_method, fields = FORM_TABLE[cell['form']]
    level, job_class, job_module = API_TABLE[template][api_method]
    reasons, either = [], []
    statuses = set()
    if cell['method'] != 'POST':
        reasons.append('method')
        if LEVEL_OF[cell['session']] == 0:
            statuses |= {401}
    else:
        r = _auth_reason(cell['session'], level)
        if r:
            reasons.append(r)
    if reasons:
        for r in reasons:
            statuses |= STATUS_OF[r]
        return _spec('refuse', statuses, reasons)
    given = cell['fields']
    params, alternatives = {}, [{}]
    bad = False
    detail = None
    if 'pr_id' in fields:
        k, value = classify_pr_id(given.get('pr_id', ''))
        if k == 'bad':
            bad = True
        else:
            params['pr_id'] = value
            if k == 'either':
                either.append('pr-id-spelling')
    if 'branch' in fields:
        name = given.get('branch', '')
        k = classify_branch(name)
        if k == 'bad':
            bad = True
        else:
            params['branch'] = name
            if k == 'either':
                either.append('branch-spelling')
    if 'branch_from' in fields:
        if 'branch_from' not in given:
            # a browser always sends the (empty) input
            either.append('optional-form-field-absent')
            alternatives = [{}, {'branch_from': ''}, {'branch_from': None}]
        else:
            val = given['branch_from']
            k = classify_branch_from(val)
            if k in ('bad', 'badtype'):
                bad = True
                if val.endswith('\n') and \
                        classify_branch_from(val[:-1]) == 'ok':
                    detail = 'well-formed-plus-trailing-newline'
            elif k == 'either':      # empty input = not given
                alternatives = [{}, {'branch_from': val}]
            else:
                params['branch_from'] = val
    if any(k not in fields for k in given):
        either.append('undeclared-form-field')
    job = {'class': job_class, 'module': job_module,
           'params': [dict(params, **a) for a in alternatives],
           'kwargs': {k: v for k, v in params.items()
                      if k in ('pr_id', 'branch')},
           'user': session_user}
    if bad:
        # nothing can be validated: no job, whatever the answer looks like
        return _spec('refuse', set(ANY_ERROR) | REDIRECTS,
                     ['ill-formed-parameter'], detail=detail)
    if cell['csrf'] != 'own':
        return _spec('either', {302, 303}, ['csrf:' + cell['csrf']], job,
                     loose_2xx=True)
    if either:
        return _spec('either', {302, 303}, either, job, loose_2xx=True)
    return _spec('accept', {302, 303}, [], job)


def hook_oracle(cell, cfg):
    reasons = []
    statuses = set()
    world_host = 'github' if cell['world'].startswith('gh') else 'bitbucket'
    route_host = cell['route'].strip('/')
    if cell['method'] != 'POST':
        reasons.append('method')
        if not cell['cred'].startswith('right'):
            statuses |= {401}
    else:
        if not cell['cred'].startswith('right'):
            reasons.append('bad-credentials')
        if route_host == 'github' and world_host != 'github':
            reasons.append('other-host')
        if cell['identity'] != 'match':
            reasons.append('foreign-repository')
    if reasons:
        for r in reasons:
            statuses |= STATUS_OF[r]
        return _spec('refuse', statuses, reasons)
    ok = set(range(200, 300))
    if route_host != world_host:
        return _spec('either', ok, ['bitbucket-hook-on-github-instance'],
                     {'class': 'PullRequestJob', 'pr_id': cell['pr_id']},
                     loose_2xx=True)
    event, sub = cell['event'], cell['sub']
    pr_job = {'class': 'PullRequestJob', 'module': 'bert_e.job',
              'pr_id': cell['pr_id']}
    commit_job = {'class': 'CommitJob', 'module': 'bert_e.job',
                  'commit': cell['sha']}
    if route_host == 'bitbucket':
        if event.startswith('repo:commit_status_'):
            if sub == 'INPROGRESS':
                return _spec('accept', ok, [], None)
            return _spec('accept', ok, [], commit_job)
        if event.startswith('pullrequest:'):
            return _spec('accept', ok, [], pr_job)
        return _spec('accept', ok, [], None)
    if event == 'pull_request':
        if sub == 'closed':
            return _spec('either', ok, ['pr-closed'], pr_job, loose_2xx=True)
        return _spec('accept', ok, [], pr_job)
    if event == 'issue_comment':
        if sub == 'pr':
            return _spec('accept', ok, [], pr_job)
        return _spec('either', ok | ANY_ERROR, ['comment-' + sub], pr_job,
                     loose_2xx=True)
    if event == 'pull_request_review':
        return _spec('accept', ok, [], pr_job)
    if event == 'status':
        if sub == 'pending':
            return _spec('accept', ok, [], None)
        return _spec('accept', ok, [], commit_job)
    if event == 'check_suite':
        if sub == 'ok':
            return _spec('accept', ok, [], commit_job)
        if sub == 'running':
            commit_job['commit'] = cfg['sha_running']
            return _spec('accept', ok, [], None)
        return _spec('either', ok, ['check-suite-without-runs'],
                     dict(commit_job, commit='0' * 40), loose_2xx=True)
    return _spec('accept', ok, [], None)


# --------------------------------------------------------------------------
# request construction
# --------------------------------------------------------------------------
def api_request(cell, cfg, world):
    family, arg = cell['family'], cell['arg']
    if family == 'jobs':
        target = '/api/jobs'
    elif family == 'job':
        if arg == 'done-job':
            target = '/api/jobs/' + str(world.done_job_id)
        elif arg == 'garbage':
            target = '/api/jobs/' + quote('../jobs?x=1 \n', safe='')
        else:
            target = '/api/jobs/00000000-0000-4000-8000-000000000000'
    elif family == 'pr':
        target = '/api/pull-requests/' + quote(arg, safe='/')
    elif family == 'branch':
        target = '/api/gwf/branches/' + quote(arg, safe='/')
    elif family == 'queues':
        target = '/api/gwf/queues'
    else:
        target = '/api/auth' + ('?access_token=' + arg if arg else '')
    body = cell['body']
    headers = {'Accept': 'application/json'}
    data = None
    if body['mode'] == 'json':
        headers['Content-Type'] = 'application/json'
        data = json.dumps(body['value'])
    elif body['mode'] == 'raw':
        headers['Content-Type'] = 'application/json'
        data = body['text']
    elif body.get('ctype'):
        headers['Content-Type'] = 'application/json'
    return target, headers, data


def credentials(cell, cfg):
    from vf.http.c14_app import basic_auth
    login, pwd = cfg['hook_login'], cfg['hook_pwd']
    c = cell['cred']
    if c == 'none':
        return None
    if c == 'right':
        return basic_auth(login, pwd)
    if c == 'right-lowercase-scheme':
        return basic_auth(login, pwd, scheme='basic')
    if c == 'wrong-password':
        return basic_auth(login, pwd + 'x')
    if c == 'wrong-login':
        return basic_auth(login + 'x', pwd)
    if c == 'both-wrong':
        return basic_auth('dummy', 'dummy')
    if c == 'empty-password':
        return basic_auth(login, '')
    if c == 'swapped':
        return basic_auth(pwd.replace(':', ''), login)
    if c == 'password-prefix':
        return basic_auth(login, pwd[:-1])
    if c == 'bearer-scheme':
        return basic_auth(login, pwd, scheme='Bearer')
    if c == 'not-base64':
        return 'Basic %%%not-base64%%%'
    if c == 'oauth-client':
        return basic_auth('client-id', 'client-secret')
    raise ValueError(c)


def identity(cell, cfg):
    o, s = cfg['owner'], cfg['slug']
    return {
        'match': (o, s), 'other-owner': (cfg['other_owner'], s),
        'other-slug': (o, cfg['other_slug']),
        'both-other': (cfg['other_owner'], cfg['other_slug']),
        'owner-suffixed': (o + '-evil', s), 'slug-prefix-only': (o, s[:-1]),
        'swapped': (s, o), 'absent': None}[cell['identity']]


def _rename(obj, owner, slug):
    text = json.dumps(obj)
    text = text.replace('test_owner', owner).replace('test_repo', slug)
    text = text.replace('bert-e', slug)
    return json.loads(text)


def bitbucket_payload(cell, cfg):
    from bert_e.tests import test_server_data as fixtures
    ident = identity(cell, cfg)
    owner, slug = ident if ident else (cfg['owner'], cfg['slug'])
    event = cell['event']
    if event.startswith('repo:commit_status_'):
        data = _rename(copy.deepcopy(fixtures.COMMIT_STATUS_CREATED), owner,
                       slug)
        st = data['commit_status']
        st['state'] = cell['sub']
        old = st['links']['commit']['href'].split('/')[-1]
        for k in ('commit', 'self'):
            st['links'][k]['href'] = st['links'][k]['href'].replace(
                old, cell['sha'])
    elif event.startswith('pullrequest:'):
        data = _rename(copy.deepcopy(fixtures.COMMENT_CREATED), owner, slug)
        data['pullrequest']['id'] = cell['pr_id']
        data['comment']['pullrequest']['id'] = cell['pr_id']
        if 'comment' not in event:
            del data['comment']
    else:
        data = {'actor': copy.deepcopy(fixtures.ACTOR),
                'repository': _rename(copy.deepcopy(fixtures.REPOSITORY),
                                      owner, slug),
                'push': {'changes': []}}
    if ident is None:
        del data['repository']
    return data


def github_payload(cell, cfg):
    from vf.http import c14_app
    ident = identity(cell, cfg)
    owner, slug = ident if ident else (cfg['owner'], cfg['slug'])
    repo = c14_app.github_repo(owner, slug)
    sender = {'id': 5, 'login': 'Some-One', 'type': 'User'}
    event, sub = cell['event'], cell['sub']
    pr = c14_app.github_pr(cfg, cell['pr_id'], owner, slug)
    if event == 'pull_request':
        if sub == 'closed':
            pr['state'] = 'closed'
            pr['closed_at'] = '2020-01-03T00:00:00Z'
        data = {'action': sub, 'number': cell['pr_id'], 'pull_request': pr}
    elif event == 'issue_comment':
        issue = {'number': cell['pr_id'], 'title': 'a title'}
        if sub == 'pr':
            issue['pull_request'] = {'url': pr['url'],
                                     'html_url': pr['html_url']}
        elif sub == 'unknown-pr':
            issue['number'] = 999999
            issue['pull_request'] = {
                'url': pr['url'].rsplit('/', 1)[0] + '/999999'}
        data = {'action': 'created', 'issue': issue,
                'comment': {'id': 1, 'body': '@the-robot status',
                            'user': sender}}
    elif event == 'pull_request_review':
        data = {'action': sub, 'pull_request': pr,
                'review': {'id': 3, 'body': None, 'state': 'approved',
                           'user': sender, 'commit_id': 'f' * 40}}
    elif event == 'status':
        data = {'sha': cell['sha'], 'state': sub, 'context': 'pre-merge',
                'description': 'a build', 'target_url': 'https://ci/1',
                'name': '%s/%s' % (owner, slug)}
    elif event == 'check_suite':
        sha = {'ok': cfg['sha_ok'], 'running': cfg['sha_running'],
               'norun': '0' * 40}[sub]
        data = {'action': 'completed', 'check_suite': {
            'id': 8, 'head_sha': sha, 'head_branch': 'q/1.0',
            'status': 'completed', 'conclusion': 'success'}}
    else:
        data = {'ref': 'refs/heads/x', 'zen': 'keep it simple'}
    data['sender'] = sender
    if ident is not None:
        data['repository'] = repo
    return data


# --------------------------------------------------------------------------
# judging
# --------------------------------------------------------------------------
def _job_problem(expected, got):
    """First difference between the expected job and a described real job."""
    if got['class'] != expected['class']:
        return 'job-class-differs', 'class %s instead of %s' % (
            got['class'], expected['class'])
    if expected.get('module') and got['module'] != expected['module']:
        return 'job-class-differs', 'module %s instead of %s' % (
            got['module'], expected['module'])
    if 'pr_id' in expected and got.get('pr_id') != expected['pr_id']:
        return 'job-target-differs', 'pull request %r instead of %r' % (
            got.get('pr_id'), expected['pr_id'])
    if 'commit' in expected and got.get('commit') != expected['commit']:
        return 'job-target-differs', 'commit %r instead of %r' % (
            got.get('commit'), expected['commit'])
    if 'params' in expected:
        if got.get('params') not in expected['params']:
            return ('job-carries-other-than-validated-parameters',
                    'parameters %r, expected %s' % (
                        got.get('params'),
                        ' or '.join(repr(p) for p in expected['params'])))
        if got.get('kwargs') != expected['kwargs']:
            return ('job-carries-other-than-validated-parameters',
                    'kwargs %r instead of %r' % (got.get('kwargs'),
                                                 expected['kwargs']))
    if 'user' in expected and got.get('user') != expected['user']:
        return 'job-user-differs', 'user %r instead of %r' % (
            got.get('user'), expected['user'])
    return None


def judge(cell, spec, seen, acc, seed):
    """Compare one observation with the oracle's spec."""
    kind = cell['kind']
    jobs = seen.describe_jobs()
    status = seen.status
    verdict = spec['verdict']
    tag = '+'.join(spec['reasons']) or 'authorised'
    if spec.get('detail'):
        tag += ':' + spec['detail']
    problem = None
    if verdict == 'refuse':
        if jobs:
            problem = ('job-enqueued-for-refusable-request:' + tag,
                       'enqueued %r' % jobs)
        elif 200 <= status < 300:
            problem = ('success-status-for-refusable-request:' + tag,
                       'status %d' % status)
        elif status not in spec['statuses']:
            problem = ('undocumented-status-for-refusal:' + tag,
                       'status %d, expected one of %s' % (
                           status, _fmt_statuses(spec['statuses'])))
    else:
        want_job = spec['job']
        if verdict == 'accept' and want_job is None:
            if jobs:
                problem = ('job-enqueued-by-request-that-creates-none',
                           'enqueued %r' % jobs)
            elif status not in spec['statuses']:
                problem = ('authorised-request-refused',
                           'status %d, expected %s' % (
                               status, _fmt_statuses(spec['statuses'])))
        elif len(jobs) > 1:
            problem = ('several-jobs-for-one-request', 'enqueued %r' % jobs)
        elif len(jobs) == 1:
            acc.count('job_parameters_compared')
            diff = _job_problem(want_job, jobs[0])
            if diff:
                mech, what = diff
                if mech.startswith('job-carries') and spec['reasons']:
                    mech += ':' + tag
                problem = (mech, what + '; job %r' % jobs[0])
            elif not (200 <= status < 400):
                problem = ('job-enqueued-despite-error-status',
                           'status %d with job %r' % (status, jobs[0]))
            elif verdict == 'accept' and status not in spec['statuses']:
                problem = ('undocumented-status-for-acceptance',
                           'status %d, expected %s' % (
                               status, _fmt_statuses(spec['statuses'])))
            elif kind == 'api' and status == 202:
                problem = _check_response_body(seen, jobs[0])
        else:
            if verdict == 'accept':
                problem = ('authorised-request-refused' if status >= 400
                           else 'accepted-without-job',
                           'status %d and no job; expected %r' % (
                               status, want_job))
            elif 200 <= status < 300 and not spec['loose_2xx']:
                problem = ('success-status-without-job:' + tag,
                           'status %d and no job' % status)
    if problem:
        acc.violation('%s:%s' % (kind, problem[0]),
                      '%s -> %s [%s]' % (describe(cell), problem[1],
                                         'expected ' + verdict),
                      {'seed': seed, 'cell': cell})
    return problem


def _check_response_body(seen, job):
    try:
        doc = json.loads(seen.data.decode())
    except Exception:
        return ('accepted-response-is-not-the-job-json',
                'body %r' % seen.data[:80])
    if doc.get('type') != job['class'] or doc.get('user') != job['user'] \
            or doc.get('settings') != job['params'] or not doc.get('id'):
        return ('accepted-response-is-not-the-job-json',
                'response %r, job %r' % (doc, job))
    return None


def _fmt_statuses(statuses):
    if len(statuses) > 12:
        return 'any 4xx/5xx' + ('/3xx' if 308 in statuses else '')
    return '/'.join(str(s) for s in sorted(statuses))


def describe(cell):
    kind = cell['kind']
    if kind == 'api':
        return '%s %s %r body=%s session=%s (%s)' % (
            cell['method'], FAMILY_TEMPLATE[cell['family']], cell['arg'],
            cell['body_name'] if cell['body']['mode'] != 'json'
            else json.dumps(cell['body']['value']), cell['session'],
            cell['world'])
    if kind == 'form':
        return '%s /form/%s fields=%r csrf=%s session=%s (%s)' % (
            cell['method'], cell['form'], cell['fields'], cell['csrf'],
            cell['session'], cell['world'])
    if kind == 'hook':
        return '%s %s event=%s/%s credentials=%s repository=%s (%s)' % (
            cell['method'], cell['route'], cell['event'], cell['sub'],
            cell['cred'], cell['identity'], cell['world'])
    if kind == 'manage':
        return '%s %s session=%s (%s)' % (cell['method'], cell['path'],
                                          cell['session'], cell['world'])
    return json.dumps(cell, sort_keys=True)


# --------------------------------------------------------------------------
# running
# --------------------------------------------------------------------------
class Worlds:
    def __init__(self, cfg):
        from vf.http import c14_app
        self.cfg = cfg
        self.mod = c14_app
        self.scratch = None
        self.worlds = {}

    def get(self, name):
        w = self.worlds.get(name)
        if w is None:
            import os
            import tempfile
            if self.scratch is None:
                self.scratch = tempfile.mkdtemp(
                    prefix='vf-c14-', dir='/dev/shm'
                    if os.path.isdir('/dev/shm') else None)
            host = 'github' if name.startswith('gh') else 'bitbucket'
            org = self.cfg['organization'] if name.endswith('org') else ''
            w = self.mod.World(host, self.cfg, organization=org,
                               scratch=self.scratch)
            # a finished job for GET /api/jobs/<id>
            from bert_e.job import CommitJob
            done = CommitJob(bert_e=w.bert_e, commit='d' * 40)
            done.complete()
            w.bert_e.tasks_done.appendleft(done)
            w.done_job_id = done.id
            self.worlds[name] = w
        return w

    def close(self):
        import shutil
        if self.scratch:
            shutil.rmtree(self.scratch, ignore_errors=True)


def run_cell(cell, worlds, acc, seed):
    cfg = worlds.cfg
    world = worlds.get(cell['world'])
    kind = cell['kind']
    acc.evals += 1
    if kind == 'login':
        return run_login(cell, world, acc, seed)
    session = cell.get('session')
    client = None
    if session is not None:
        client = world.client(session)
        if client is None:
            acc.count('skipped_login_session_unavailable')
            return None
    suser = world.session_user(session) if session else None

    if kind == 'api':
        spec = api_oracle(cell, cfg, suser)
        target, headers, data = api_request(cell, cfg, world)
        seen = world.request(client, cell['method'], target, headers, data)
    elif kind == 'manage':
        spec = manage_oracle(cell)
        seen = world.request(client, cell['method'], cell['path'])
    elif kind == 'form':
        spec = form_oracle(cell, cfg, suser)
        data = dict(cell['fields'])
        if cell['csrf'] == 'own':
            tok = world.csrf_token(session)
            if tok is None:
                acc.inconc('no CSRF token on the management page for '
                           'session %s' % session)
                return None
            data['csrf_token'] = tok
        elif cell['csrf'] == 'foreign':
            tok = world.csrf_token('admin2_tx')
            if tok is None:
                acc.inconc('no CSRF token for the second admin session')
                return None
            data['csrf_token'] = tok
        elif cell['csrf'] == 'garbage':
            data['csrf_token'] = 'IjAxMjM0NTY3ODlhYmNkZWYi.AAAAAA.garbage'
        before = len(world.internal_calls)
        seen = world.request(client, cell['method'],
                             '/form/' + cell['form'], data=data)
        if len(world.internal_calls) > before:
            acc.count('form_chain_reached_api')
    elif kind == 'hook':
        spec = hook_oracle(cell, cfg)
        if cell['route'] == '/bitbucket':
            payload = bitbucket_payload(cell, cfg)
            headers = {'X-Event-Key': cell['event']}
        else:
            payload = github_payload(cell, cfg)
            headers = {}
            if cell['event'] is not None:
                headers['X-Github-Event'] = cell['event']
        headers['Content-Type'] = 'application/json'
        auth = credentials(cell, cfg)
        if auth is not None:
            headers['Authorization'] = auth
        seen = world.request(world.app.test_client(), cell['method'],
                             cell['route'], headers, json.dumps(payload))
    else:
        raise ValueError(kind)

    problem = judge(cell, spec, seen, acc, seed)
    _account(cell, spec, seen, acc, problem)
    return problem


def _account(cell, spec, seen, acc, problem):
    kind = cell['kind'] if cell['kind'] != 'manage' else 'form'
    verdict, reasons = spec['verdict'], spec['reasons']
    if verdict == 'refuse':
        if len(reasons) == 1 and reasons[0] != 'method':
            acc.nontrivial_disjoint += 1
        for r in reasons:
            name = {'unauthenticated': 'unauthenticated',
                    'not-admin': 'not_admin', 'method': 'method',
                    'bad-credentials': 'credentials',
                    'foreign-repository': 'identity',
                    'other-host': 'identity'}.get(r, 'ill_formed')
            if kind == 'form' and name in ('unauthenticated', 'not_admin'):
                name = 'auth'
            acc.count('%s_refuse_%s' % (kind, name))
    elif verdict == 'accept':
        acc.nontrivial_disjoint += 1
        if spec['job'] is None:
            acc.count('%s_expected_ignored' % kind)
        else:
            acc.count('%s_expected_%s' % (
                kind, 'job' if kind == 'hook' else 'accept'))
    else:
        acc.nontrivial_disjoint += 1
        for r in reasons:
            acc.count('dont_care_' + r.replace(':', '_').replace('-', '_'))
        acc.seen('dont_care_outcomes', '%s %s -> %d, %d job(s)' % (
            kind, '+'.join(reasons), seen.status, len(seen.jobs)))
    acc.seen('%s_status' % kind, str(seen.status))
    for j in seen.jobs:
        acc.seen('job_classes', type(j).__name__)
    if problem is None and len(acc.samples) < acc.MAX_SAMPLES and \
            (acc.evals % 7 == 0 or verdict == 'accept'):
        acc.sample({'request': describe(cell), 'expected': verdict,
                    'reasons': reasons, 'status': seen.status,
                    'jobs': seen.describe_jobs()})


def run_login(cell, world, acc, seed):
    """/api/auth with a token, then three probes of what the session may
    do."""
    cfg = world.cfg
    known = world_tokens(world)
    acc.count('login_cells')
    acc.nontrivial_disjoint += 1
    org = world.organization
    problems = []

    def expect_for(tok):
        if tok not in known:
            return None
        handle, mail = known[tok]
        if org and not (mail and mail.endswith('@' + org)):
            return None
        low = handle.lower()
        return low, low in (cfg['admin'], cfg['admin2'])

    client = world.app.test_client()
    state = None          # (user, admin) the oracle believes the session has
    for tok in (cell['token'], cell['then']):
        if tok is None:
            continue
        seen = world.request(
            client, 'GET',
            '/api/auth' + ('?access_token=' + tok if tok else ''),
            headers={'Content-Type': 'application/json'})
        exp = expect_for(tok)
        if seen.jobs:
            problems.append(('login:job-enqueued-by-login',
                             'jobs %r' % seen.describe_jobs()))
        if exp is None:
            if 200 <= seen.status < 300:
                problems.append(('login:success-status-for-refusable-login',
                                 'token %r -> %d' % (tok, seen.status)))
            elif not (400 <= seen.status < 600):
                problems.append(('login:undocumented-status-for-refusal',
                                 'token %r -> %d' % (tok, seen.status)))
            # a refused login must not create a session; an earlier one may
            # or may not survive
        else:
            if seen.status != 200:
                problems.append(('login:valid-token-refused',
                                 'token %r -> %d' % (tok, seen.status)))
                exp = None
            state = exp if exp is not None else state
        acc.seen('login_status', str(seen.status))
    ambiguous = state is not None and expect_for(cell['token']) is not None \
        and cell['then'] is not None and expect_for(cell['then']) is None
    # probes
    level = 0 if state is None else (2 if state[1] else 1)
    probes = [('GET', '/api/jobs', 1, None),
              ('POST', '/api/gwf/queues', 1, 'RebuildQueuesJob'),
              ('DELETE', '/api/gwf/queues', 2, 'DeleteQueuesJob')]
    for method, target, need, job_class in probes:
        seen = world.request(client, method, target,
                             headers={'Content-Type': 'application/json',
                                      'Accept': 'application/json'},
                             data='{}')
        jobs = seen.describe_jobs()
        if ambiguous:
            continue
        if level >= need:
            ok = seen.status == (202 if job_class else 200) and \
                len(jobs) == (1 if job_class else 0)
            if ok and job_class:
                ok = jobs[0]['class'] == job_class and \
                    jobs[0]['user'] == state[0]
            if not ok:
                problems.append((
                    'login:session-lacks-the-rights-of-its-account',
                    '%s %s -> %d jobs %r, session should be %r' % (
                        method, target, seen.status, jobs, state)))
        else:
            want = 401 if level == 0 else 403
            if jobs or seen.status != want:
                problems.append((
                    'login:session-has-more-rights-than-its-account',
                    '%s %s -> %d jobs %r, session should be %r' % (
                        method, target, seen.status, jobs, state)))
    handle = known.get(cell['token'], (None,))[0]
    if handle and handle.lower() == cfg['admin2_account']:
        acc.count('dont_care_account_id_as_handle')
    for mech, what in problems[:1]:
        acc.violation(mech, 'login token=%r then=%r organisation=%r (%s): %s'
                      % (cell['token'], cell['then'], org, cell['world'],
                         what), {'seed': seed, 'cell': cell})
    if not problems and len(acc.samples) < acc.MAX_SAMPLES and \
            acc.evals % 5 == 0:
        acc.sample({'login': cell, 'session': state})
    return problems[0] if problems else None


def world_tokens(world):
    from vf.http import c14_app
    return c14_app.tokens(world.cfg)


# --------------------------------------------------------------------------
# route table against app.url_map
# --------------------------------------------------------------------------
def _template_of(rule):
    out, i = '', 0
    while i < len(rule):
        if rule[i] == '<':
            j = rule.index('>', i)
            inner = rule[i + 1:j]
            out += '<' + inner.split(':')[-1] + '>'
            i = j + 1
        else:
            out += rule[i]
            i += 1
    return out


def check_routes(world, acc, seed):
    """Every rule under /api and /form, the webhooks and the management page
    must be in the oracle's table with the same methods; every other rule
    must enqueue nothing."""
    table = {}
    for tpl, methods in API_TABLE.items():
        table[tpl] = set(methods)
    for form in FORM_TABLE:
        table['/form/' + form] = {'POST'}
    for tpl, methods in OTHER_TABLE.items():
        table[tpl] = set(methods)
    registered = {}
    others = []
    for rule in world.app.url_map.iter_rules():
        tpl = _template_of(rule.rule)
        methods = set(rule.methods) - {'HEAD', 'OPTIONS'}
        guarded = tpl.startswith('/api') or tpl.startswith('/form') or \
            tpl in OTHER_TABLE
        if guarded:
            registered.setdefault(tpl, set()).update(methods)
        else:
            others.append((rule.rule, tpl))
    for tpl, methods in sorted(registered.items()):
        if tpl not in table:
            acc.inconc('route %s %s is registered but not in the oracle '
                       'table' % (sorted(methods), tpl))
        elif methods != table[tpl]:
            acc.inconc('route %s accepts %s, the oracle table says %s' % (
                tpl, sorted(methods), sorted(table[tpl])))
    for tpl in sorted(set(table) - set(registered)):
        acc.violation('routes:documented-endpoint-not-registered',
                      'no rule for %s' % tpl, {'seed': seed, 'cell': None})
    acc.count('routes_checked', len(registered))
    # the unguarded pages never enqueue anything
    for raw, tpl in others:
        target = raw
        if '<' in raw:
            target = {'/static/<filename>': '/static/bert-e.css',
                      '/doc/<docname>': '/doc/api'}.get(tpl)
            if target is None:
                acc.inconc('unguarded route %s has a parameter the harness '
                           'does not know how to fill' % raw)
                continue
        for user, admin in ((None, False), (world.cfg['user'], False),
                            (world.cfg['admin'], True)):
            c = world.tx_client(user, admin) if user else \
                world.app.test_client()
            seen = world.request(c, 'GET', target)
            acc.evals += 1
            acc.count('unguarded_page_requests')
            acc.seen('unguarded_status', '%s %d' % (tpl, seen.status))
            if seen.jobs:
                acc.violation('other:job-enqueued-by-unguarded-page',
                              'GET %s enqueued %r' % (
                                  target, seen.describe_jobs()),
                              {'seed': seed, 'cell': None})


def run_shard(spec, acc):
    import logging
    import warnings
    logging.disable(logging.CRITICAL)
    warnings.simplefilter('ignore')
    seed, shard, n = spec['seed'], spec['shard'], spec['nshards']
    cfg, cells = build_cells(seed)
    keys = set(json.dumps(c, sort_keys=True) for c in cells)
    if len(keys) != len(cells):
        acc.inconc('the enumeration repeats %d cells' % (
            len(cells) - len(keys)))
    worlds = Worlds(cfg)
    try:
        if shard == 0:
            for name in ('bb', 'gh'):
                check_routes(worlds.get(name), acc, seed)
        for w in ('bb', 'gh'):
            world = worlds.get(w)
            for kind in ('user_login', 'admin_login'):
                if world.client(kind) is None:
                    acc.violation(
                        'login:valid-token-refused',
                        '/api/auth did not open a session for %s on the %s '
                        'instance' % (kind, w), {'seed': seed, 'cell': {
                            'kind': 'login', 'world': w, 'then': None,
                            'token': 'tok-user' if kind == 'user_login'
                            else 'tok-admin'}})
        for i, cell in enumerate(cells):
            if i % n != shard:
                continue
            run_cell(cell, worlds, acc, seed)
        # the sessions must still be what the harness believes they are
        for name, world in worlds.worlds.items():
            for kind, want in (('user_tx', 403), ('admin_tx', 202),
                               ('user_login', 403), ('admin_login', 202)):
                c = world._clients.get(kind)
                if c is None:
                    continue
                seen = world.request(
                    c, 'DELETE', '/api/gwf/queues',
                    headers={'Content-Type': 'application/json'}, data='{}')
                if seen.status != want:
                    acc.inconc('session %s of world %s answered %d at the '
                               'end of the shard: the harness lost its '
                               'session' % (kind, name, seen.status))
        from vf.http import c14_app, c14_concurrent
        c14_concurrent.run(acc, seed, shard, n, spec['tier'])
        if c14_app.UNEXPECTED:
            acc.seen('unscripted_outgoing_requests',
                     sorted(set(c14_app.UNEXPECTED))[:5])
    finally:
        worlds.close()
    acc.exhaustive['API/forms/webhooks/login matrix as enumerated by '
                   'build_cells (%d cells)' % len(cells)] = True


def replay(w, acc):
    import logging
    import warnings
    logging.disable(logging.CRITICAL)
    warnings.simplefilter('ignore')
    from vf.http import c14_app
    if w.get('concurrent'):
        from vf.http import c14_concurrent
        return c14_concurrent.replay(w, acc)
    cfg = c14_app.config(w['seed'])
    worlds = Worlds(cfg)
    try:
        if w['cell'] is None:
            for name in ('bb', 'gh'):
                check_routes(worlds.get(name), acc, w['seed'])
        else:
            run_cell(w['cell'], worlds, acc, w['seed'])
    finally:
        worlds.close()
