"""C10 - re-evaluation converges, never spams, commands run once, outcome is
instance-independent (world harness, fork differential)."""
import random

from vf.world import gen, monitors, reeval, runner
from vf.world.world import World, AUTHOR, LEAD

ID = 'C10'
LEVEL = 'exploration'
RULE = ('at sampled states of generated histories (blocked on each gate, '
        'queued, merged, declined, pending and repeated commands) every '
        'possible evaluation (PR event on every PR incl. integration PRs, '
        'commit event on every source / w / q tip; up to 8 per state) is '
        'delivered four times in a fork child (one evaluation plus two more '
        'must reach a stable state): the fourth must change no ref, PR or '
        'comment, and a command status must not repeat without a new '
        'command comment; the same evaluation is delivered once to a fresh '
        'instance in another child and status + resulting state (commit ids '
        'are reproducible: dates pinned) must equal the long-lived '
        'instance\'s; plus no two adjacent identical robot comments after '
        'any job of any history; distinct = (event kind, status sequence)')
ASSUMPTIONS = [
    'mock host + real git + real Bert-E; sampled states',
    'the generator\'s command comments are help/status/reset/force_reset/'
    'build',
]
MIN_NONTRIVIAL = 8
REQUIRED_COUNTERS = {'c10_evaluations_repeated': 60,
                     'c10_fresh_vs_long_lived_compared': 60,
                     'c10_comment_lists_checked': 100,
                     'c10_jobs_after_a_lost_comment_reply': 3}
SHARD_TIMEOUT = {'quick': 900, 'thorough': 5400}
MONITORS = [monitors.c10_no_adjacent_duplicates,
            monitors.c10_no_phantom_hold]
LAYOUTS = ['d1', 'd2', 's1d2', 'd1M1d2', 'h1d2', 'd3', 'd4']


def op_reset_twice(g):
    """command issued twice with only silent outcomes in between"""
    dests = [d for d in g.dests() if not d.startswith('hotfix/')]
    pr = g.new_pr(g.rng.choice(dests))
    g.w.do('comment', pr=pr['id'], user=AUTHOR, text='/reset')
    g.run('pr', pr['id'])
    g.run('pr', pr['id'])
    g.w.do('comment', pr=pr['id'], user=AUTHOR, text='/reset')


def op_help_then_status(g):
    pr = g.new_pr(g.rng.choice(g.dests()))
    g.w.do('comment', pr=pr['id'], user=AUTHOR, text='@robot help')
    g.run('pr', pr['id'])
    g.w.do('comment', pr=pr['id'], user=LEAD, text='@robot status')


def op_blocked(g):
    pr = g.new_pr(g.rng.choice(g.dests()))
    g.w.do('comment', pr=pr['id'], user=AUTHOR,
           text=g.rng.choice(['@robot unknown_thing',
                              '@robot bypass_build_status', '/wait',
                              '/after_pull_request=99', '/approve']))


def op_comment_reply_lost(g):
    """the host stores the robot's comment but the reply is lost (read
    timeout): whatever the job does about it, the next evaluations must not
    post the message again"""
    pr = g.new_pr(g.rng.choice(g.dests()))
    g.w.do('comment', pr=pr['id'], user=AUTHOR,
           text=g.rng.choice(['@robot unknown_thing', '@robot status',
                              '@robot help', '/after_pull_request=99']))
    g.w.do('arm_lost_reply', call='add_comment', nth=1)
    g.run('pr', pr['id'])
    g.run('pr', pr['id'])


OPENERS = [None, op_comment_reply_lost, op_reset_twice, op_help_then_status, op_blocked,
           gen.OPENERS['two_prs_same_base'], gen.OPENERS['three_queued'],
           gen.OPENERS['partial_merge'], gen.OPENERS['partial_merge'],
           gen.OPENERS['dependency_then_other'],
           gen.OPENERS['conflict_on_later_target'],
           gen.OPENERS['conflict_on_later_target'],
           gen.OPENERS['queue_conflict'], gen.OPENERS['backport'],
           gen.OPENERS['backport_pending'], gen.OPENERS['backport_pending']]


def plan(tier, seed):
    return [{} for _ in range(16)]


def run_shard(spec, acc):
    runner.quiet()
    rng = random.Random('c10-%s-%s' % (spec['seed'], spec['shard']))
    nstates = 3 if spec['tier'] == 'quick' else 45
    configs = [{'layout': l, 'queue_mode': q}
               for l in LAYOUTS for q in ('queue', 'noqueue', 'skipqueue')]
    configs.append({'layout': 'd2', 'queue_mode': 'queue',
                    'settings': {'required_peer_approvals': 1,
                                 'always_create_integration_pull_requests':
                                 True}})
    for layout in ('d2', 'd3', 's1d2'):
        for qm in ('queue', 'noqueue'):
            configs.append({'layout': layout, 'queue_mode': qm,
                            'settings': {'required_peer_approvals': 1}})
    for i in range(-1 if spec['shard'] < 9 else 0, nstates):
        cfg = configs[(spec['shard'] + i * spec['nshards']) % len(configs)]
        op = OPENERS[rng.randrange(len(OPENERS))]
        if i < 0 and spec['shard'] >= 6:
            # directed: a comment whose reply is lost
            op = op_comment_reply_lost
            cfg = {'layout': ['d2', 'd3', 's1d2'][spec['shard'] - 6],
                   'queue_mode': ['queue', 'noqueue', 'queue'][
                       spec['shard'] - 6]}
            acc.count('c10_directed_comment_reply_lost')
        elif i < 0 and spec['shard'] >= 3:
            # directed: a pull request partially merged through the queue
            # (the instance remembers it as merged), still open
            op = gen.OPENERS['partial_merge']
            cfg = {'layout': ['d2', 'd3', 's1d2'][spec['shard'] - 3],
                   'queue_mode': 'queue'}
            acc.count('c10_directed_partial_merge')
        elif i < 0:
            # directed: a pending backport with integration pull requests
            # (the default of a deployment) - see known_findings.json
            op = gen.OPENERS['backport_pending']
            cfg = {'layout': ['d2', 'd3', 's1d2'][spec['shard']],
                   'queue_mode': ['queue', 'noqueue', 'queue'][spec['shard']],
                   'settings': {'required_peer_approvals': 1,
                                'always_create_integration_pull_requests':
                                True}}
            acc.count('c10_directed_backport_with_integration_prs')
        elif op is gen.OPENERS['backport_pending']:
            # the backported PR has to stay pending: approvals required
            cfg = {'layout': rng.choice(['d2', 'd3', 's1d2']),
                   'queue_mode': rng.choice(['queue', 'noqueue']),
                   'settings': {'required_peer_approvals': 1}}
        world = None
        try:
            world = World(seed=rng.getrandbits(30), **cfg)

            def on_job(rec, world=world):
                acc.count('jobs')
                acc.seen('job_outcomes', '%s:%s' % (rec['kind'],
                                                     rec['status']))
                monitors.c10_no_adjacent_duplicates(world, rec, acc, {})
                if world.lost_replies:
                    acc.count('c10_jobs_after_a_lost_comment_reply')
                monitors.c10_no_phantom_hold(world, rec, acc, {})
            g = gen.Gen(world, rng, gen.profile(
                p_green=0.8, p_forward=0.5,
                w={'comment': 6, 'delete_comment': 2, 'admin': 0.5}), on_job)
            if op:
                op(g)
            g.walk(g.njobs + (0 if i < 0 else rng.randrange(0, 8)))
            reeval.explore_state(world, acc, rng,
                                 max_evals=6 if spec['tier'] == 'quick'
                                 else 10)
            acc.count('states_explored')
        except Exception as err:
            acc.count('harness_errors')
            acc.notes.append('%s: %s' % (type(err).__name__, str(err)[:300]))
        finally:
            if world is not None:
                world.close()


def finalize(acc, tier, seed):
    if acc.counters.get('harness_errors', 0) > 4:
        acc.inconc('%d harness errors' % acc.counters['harness_errors'])


def replay(witness, acc):
    runner.quiet()
    if 'evaluation' not in witness:
        return runner.replay_world(witness, acc, MONITORS)
    cfg = witness['config']
    world = World(layout=cfg['layout'], queue_mode=cfg['queue_mode'],
                  seed=cfg.get('seed', 0), settings=cfg.get('settings'),
                  cmd_line_options=cfg.get('cmd_line_options', ()))
    try:
        for step in witness['history']:
            world.apply(step)
            world.drain()

        class OneEval:
            def shuffle(self, evs):
                evs[:] = [e for e in evs
                          if list(e) == list(witness['evaluation'])]
        reeval.explore_state(world, acc, OneEval(), max_evals=1)
    finally:
        world.close()
