"""C13 - the server never loses an event and its worker never dies.

The real BertE.put_job / process_task / process / JobDispatcher.dispatch and the
real PullRequestJob / CommitJob __eq__ run on a BertE instance built without
network or git, under the controlled scheduler of vf/sched/c13_sched.py
(source-line interleavings of up to 3 webhook threads with the worker).  A
monitor keeps one globally ordered event log; the oracle below is written from
the property statement only.
"""
import collections
import hashlib
import json
import queue
import random
import threading
import time
import types

from vf.sched import c13_sched as S

ID = 'C13'
LEVEL = 'exploration'
EXHAUSTIVE_MEANS_ALL = False
RULE = ('a case is one schedule: a workload (1-3 webhook threads x 1-2 events '
        'each on 2 keys taken from {PR 1, PR 2, commit a, commit b}, one of '
        'the 4 job outcomes per job) plus the sequence of scheduling choices '
        'taken at the source lines of put_job, process_task, the two job '
        '__eq__ and the job handler.  Schedules are enumerated depth-first '
        'with a bounded number of preemptions (each exactly once) or drawn '
        'with seeded PCT priorities / random walks; two schedules are the '
        'same case iff workload and (thread, code, line) sequence are equal '
        '(hash).  Non-trivial = some other thread executed at least one '
        'instrumented line between the entry and the exit of some put_job '
        'call, or a request was suppressed or refused.  Complement (counted '
        'in the evaluations, never as distinct cases): a few hundred rounds '
        'of the same workloads with uncontrolled real threads and the real '
        'blocking Queue.get()')
ASSUMPTIONS = [
    'queue.Queue is trusted and not instrumented; its blocking get() is '
    'modelled by "not eligible until the queue is non-empty, then '
    'get_nowait()", which has the atomicity of the original',
    'interleavings are explored at source-line granularity of put_job, '
    'process_task, PullRequestJob.__eq__, CommitJob.__eq__ and the handler, '
    'with bounded preemptions in the enumerated part; CPython is trusted',
    'the instance has a do-nothing git repository and a stub handler; the '
    'HTTP layer in front of put_job is covered by C14',
    '"accepted" = put_job returned normally to the caller; the accept mark '
    'is taken at the client boundary, just before put_job is called; a '
    'request whose put_job raised (HTTP 500) is "refused": counted and '
    'reported, outside the statement',
    'duplicate pending jobs (two equal jobs waiting at the same time) are '
    'counted and reported, outside the statement',
    'job.details and the value returned by the handler are not asserted '
    '(statement silent)',
    'oracle: (1) every accepted event has a dequeue of a job on the same key '
    '(the harness\'s own key, not bert_e\'s __eq__) with a larger sequence '
    'number than its accept mark; (2) a suppressed event had an equal job '
    'waiting at some moment of its put_job call; (3) after every '
    'process_task: job at the head of tasks_done, done, end time, status = '
    'name of the raised class, marker cleared; (4) at quiescence: worker '
    'alive, queue empty, no marker, every dequeued job finished',
    'a schedule that ends by the wall-clock watchdog, the step limit or a '
    'harness error is inconclusive, never a violation',
]
MIN_NONTRIVIAL = 20000
REQUIRED_COUNTERS = {
    'webhook_job_events_after_a_history': 5000,   # webhook-layer companion
    'accepted_checked': 50000,         # the deciding comparison ran
    'suppressed_while_equal_pending': 10000,
    'finished_jobs_checked': 50000,
    'accept_while_equal_running': 5000,    # the dangerous windows were entered
    'accept_after_equal_done': 5000,
    'outcome_silent': 5000, 'outcome_template': 5000,
    'outcome_internal': 5000, 'outcome_exception': 5000,
    'quiescence_checked': 20000,
    'schedules_enumerated': 20000, 'schedules_random': 10000,
    'schedules_free_running': 100,
}
SHARD_TIMEOUT = {'quick': 600, 'thorough': 2400}

KEYS = (('pr', 1), ('pr', 2), ('commit', 'a' * 40), ('commit', 'b' * 40))
KEY_PAIRS = ((0, 2), (0, 1), (2, 3), (1, 3), (2, 0), (3, 1))
OUTCOMES = ('silent', 'template', 'internal', 'exception',
            'exception_empty', 'exception_multiline', 'jobfailure_empty')
WATCHDOG_S = 30.0
FREE_WATCHDOG_S = 10.0


# ---------------------------------------------------------------------------
# monitor
class Monitor:
    """Event log with one global sequence number (= index in the list), taken
    under the monitor's own lock."""
    def __init__(self):
        self.lock = threading.Lock()
        self.log = []

    def rec(self, kind, **kw):
        with self.lock:
            kw['kind'] = kind
            kw['seq'] = len(self.log)
            self.log.append(kw)
            return kw['seq']


class MonQueue(queue.Queue):
    """queue.Queue whose _put/_get (called under the queue's own mutex) are
    shadowed in the log, and whose blocking get is a scheduler block."""
    def __init__(self, mon, sched):
        super().__init__()
        self.mon = mon
        self.sched = sched
        if sched is not None:
            # the queue's own mutex is public (task_queue.mutex): code that
            # holds it across several lines must block the other threads in
            # the scheduler, not in a real lock the scheduler cannot see
            self.mutex = ManagedLock(sched, reentrant=False)
            self.not_empty = threading.Condition(self.mutex)
            self.not_full = threading.Condition(self.mutex)
            self.all_tasks_done = threading.Condition(self.mutex)

    def _put(self, item):
        super()._put(item)
        self.mon.rec('enq', ev=getattr(item, 'vf_ev', None),
                     key=getattr(item, 'vf_key', None))

    def _get(self):
        item = super()._get()
        self.mon.rec('deq', ev=getattr(item, 'vf_ev', None),
                     key=getattr(item, 'vf_key', None))
        return item

    def get(self, block=True, timeout=None):
        if block and self.sched is not None:
            self.sched.block_until(lambda: len(self.queue) > 0)
            return queue.Queue.get(self, block=False)
        return queue.Queue.get(self, block, timeout)


class ManagedLock:
    """Stands for a threading.Lock / RLock that the code under test keeps on
    the BertE instance: under the controlled scheduler an acquisition of a
    held lock is a scheduler block (the scheduler cannot see through a real
    lock); without a scheduler it is a real re-entrant lock."""
    def __init__(self, sched, reentrant=True):
        self.sched = sched
        self.real = threading.RLock()
        self.owner = None
        self.depth = 0
        self.reentrant = reentrant

    def _is_owned(self):                 # used by threading.Condition
        return self.owner == threading.get_ident()

    def _release_save(self):
        d = self.depth
        self.owner, self.depth = None, 0
        return d

    def _acquire_restore(self, d):
        self.acquire()
        self.depth = d

    def acquire(self, blocking=True, timeout=-1):
        if self.sched is None:
            return self.real.acquire(blocking, timeout)
        me = threading.get_ident()
        if self.owner == me and self.reentrant:
            self.depth += 1
            return True
        if self.owner == me:
            # a plain Lock taken twice by its owner: a real deadlock
            if not blocking:
                return False
            self.sched.block_until(lambda: False)
        if self.owner is not None:
            if not blocking:
                return False
            self.sched.block_until(lambda: self.owner is None)
        self.owner, self.depth = me, 1
        return True

    def release(self):
        if self.sched is None:
            return self.real.release()
        self.depth -= 1
        if self.depth <= 0:
            self.owner, self.depth = None, 0

    def locked(self):
        return self.owner is not None

    __enter__ = acquire

    def __exit__(self, *a):
        self.release()


class NullGit:
    def reset(self):
        pass


class Env:
    """Per-process: imports of the real code, handler registration,
    instrumentation."""
    _inst = None

    def __init__(self):
        import logging
        logging.disable(logging.CRITICAL)
        from vf.func import fast, stubs
        fast.install()
        from bert_e import exceptions as exc
        from bert_e.bert_e import BertE
        from bert_e.job import CommitJob, PullRequestJob
        self.BertE, self.PullRequestJob, self.CommitJob = \
            BertE, PullRequestJob, CommitJob
        self.exc = exc
        self.stubs = stubs
        self.settings = stubs.make_settings()
        self.settings['backtrace'] = True      # as server.setup_bert_e does
        self.cur = None                         # the Run in progress
        env = self

        def vf_handler(job):
            run = env.cur
            run.mon.rec('start', ev=job.vf_ev, key=job.vf_key)
            kind = job.vf_outcome
            if kind == 'stop':             # harness: end a free-running worker
                raise S.Abort()
            if kind == 'silent':
                raise exc.NothingToDo()
            if kind == 'template':
                raise exc.CommandNotImplemented(
                    active_options=[], command='vf', author='author')
            if kind == 'internal':
                raise exc.UnableToSendEmail('vf internal')
            if kind == 'exception_empty':
                raise RuntimeError()          # no message at all
            if kind == 'exception_multiline':
                raise ValueError('first line\nsecond line \u2603\n')
            if kind == 'jobfailure_empty':
                raise exc.JobFailure()
            raise KeyError('vf arbitrary exception')

        self.handler = vf_handler
        self.expected_status = {
            'silent': 'NothingToDo', 'template': 'CommandNotImplemented',
            'internal': 'UnableToSendEmail', 'exception': 'KeyError',
            'exception_empty': 'RuntimeError',
            'exception_multiline': 'ValueError',
            'jobfailure_empty': 'JobFailure'}
        # real dispatch (MRO walk over the callbacks) ends in our handler
        BertE.set_callback(PullRequestJob, vf_handler)
        BertE.set_callback(CommitJob, vf_handler)
        self.codes = S.instrument([
            BertE.put_job.__code__, BertE.process_task.__code__,
            PullRequestJob.__eq__.__code__, CommitJob.__eq__.__code__,
            vf_handler.__code__])

    @classmethod
    def get(cls):
        if cls._inst is None:
            cls._inst = cls()
        return cls._inst

    def make_berte(self, mon, sched):
        # the real constructor (mock git host), so that whatever attribute
        # BertE.__init__ creates exists; then the collaborators that would
        # need a repository are replaced and the queue is the monitored one
        b = self.stubs.real_berte(self.settings)
        b.client = None
        b.project_repo = types.SimpleNamespace(full_name='owner/slug')
        b.git_repo = NullGit()
        b.tmpdir = None
        b.task_queue = MonQueue(mon, sched)
        # locks kept on the instance become scheduler-aware
        lock_types = (type(threading.Lock()), type(threading.RLock()))
        for name, value in list(vars(b).items()):
            if isinstance(value, lock_types):
                setattr(b, name, ManagedLock(sched))
        return b

    def make_job(self, berte, key, ev, outcome):
        kind, ident = KEYS[key]
        if kind == 'pr':
            job = self.PullRequestJob(
                bert_e=berte, pull_request=types.SimpleNamespace(
                    id=ident, author='author'))
        else:
            job = self.CommitJob(bert_e=berte, commit=ident)
        job.vf_key = key
        job.vf_ev = ev
        job.vf_outcome = outcome
        return job


# ---------------------------------------------------------------------------
# one schedule
class Run:
    def __init__(self, env, cfg, strategy, watchdog_s=WATCHDOG_S):
        self.env = env
        self.cfg = cfg
        self.mon = Monitor()
        self.sched = S.Sched(strategy, watchdog_s=watchdog_s)
        self.berte = env.make_berte(self.mon, self.sched)
        self.worker_died = None
        self.book = []            # bookkeeping problems seen by the worker
        self.finished = 0
        self.quiescent_state = None
        self.windows = {}         # ev -> [trace pos at accept, at return]
        for ti, keys in enumerate(cfg['threads']):
            self.sched.add_thread('hook%d' % ti, self._hook(ti, keys))
        self.worker_idx = self.sched.add_thread('worker', self._worker)

    def _hook(self, ti, keys):
        def body():
            for ei, key in enumerate(keys):
                ev = '%d.%d' % (ti, ei)
                job = self.env.make_job(self.berte, key, ev,
                                        self.cfg['outcomes'][ti][ei])
                self.windows[ev] = [len(self.sched.trace), None]
                self.mon.rec('accept', ev=ev, key=key)       # client boundary
                try:
                    self.berte.put_job(job)
                except Exception as err:
                    self.mon.rec('refused', ev=ev, key=key,
                                 err=type(err).__name__ + ': ' + str(err)[:80])
                else:
                    self.mon.rec('accepted', ev=ev, key=key)
                self.windows[ev][1] = len(self.sched.trace)
        return body

    def _worker(self):
        # server.setup_bert_e: `while True: bert_e.process_task()`
        berte = self.berte
        try:
            while True:
                job = berte.process_task()
                self.mon.rec('finish', ev=getattr(job, 'vf_ev', None),
                             key=getattr(job, 'vf_key', None))
                self._check_finished(job)
        except S.Abort:
            raise
        except Exception as err:
            self.worker_died = '%s: %s' % (type(err).__name__, str(err)[:120])
            self.mon.rec('worker_died', err=self.worker_died)

    def _check_finished(self, job):
        """Right after process_task returned, in the worker thread, with no
        scheduling point in between."""
        b = self.berte
        self.finished += 1
        ev = getattr(job, 'vf_ev', None)
        if not b.tasks_done or b.tasks_done[0] is not job:
            self.book.append(('finished-job-not-at-head-of-tasks-done', ev))
        if not job.done or job.end_time is None:
            self.book.append(('finished-job-not-marked-done', ev))
        want = self.env.expected_status[job.vf_outcome]
        if job.status != want:
            self.book.append(('finished-job-wrong-status', '%s: %r instead of '
                              '%r' % (ev, job.status, want)))
        if 'current job' in b.status:
            self.book.append(('current-job-marker-left-after-job', ev))

    def _at_quiescence(self):
        b = self.berte
        w = self.sched.threads[self.worker_idx]
        self.quiescent_state = {
            'pending': [getattr(j, 'vf_ev', None) for j in b.task_queue.queue],
            'marker': 'current job' in b.status,
            'worker_state': w.state,
            'worker_alive': self.sched.alive(self.worker_idx),
            'tasks_done': [getattr(j, 'vf_ev', None) for j in b.tasks_done],
            'hooks_finished': all(t.state == S.FINISHED
                                  for t in self.sched.threads
                                  if t.idx != self.worker_idx),
        }

    def execute(self):
        self.env.cur = self
        try:
            return self.sched.run(self._at_quiescence)
        finally:
            self.env.cur = None

    def trace_hash(self):
        h = hashlib.sha1(repr(self.cfg_key()).encode())
        h.update(repr(self.sched.trace).encode())
        return h.hexdigest()[:20]

    def cfg_key(self):
        return (tuple(tuple(t) for t in self.cfg['threads']),
                tuple(tuple(o) for o in self.cfg['outcomes']))


class FreeRun(Run):
    """Complement: the same workload with real threads, the real blocking
    queue.Queue.get() and no control - the LINE callback only yields the GIL
    at random.  Not reproducible; it checks that the model of get() used by
    the controlled runs does not hide anything.  Wall-clock waits only ever
    make such a round inconclusive."""
    class _NoSched:
        def __init__(self):
            self.trace = []
            self.problems = []
            self.preemptions = 0
            self.choices = []

    def __init__(self, env, cfg, seed):
        self.env = env
        self.cfg = cfg
        self.mon = Monitor()
        self.sched = self._NoSched()
        self.berte = env.make_berte(self.mon, None)
        self.worker_died = None
        self.book = []
        self.finished = 0
        self.quiescent_state = None
        self.windows = {}
        self.rng = random.Random(seed)

    def _yield(self):
        u = self.rng.random()
        if u < 0.5:
            time.sleep(0)
        elif u < 0.53:
            time.sleep(0.00002)

    def execute(self):
        env, b = self.env, self.berte
        env.cur = self
        hooks = [threading.Thread(target=self._hook(ti, keys), daemon=True)
                 for ti, keys in enumerate(self.cfg['threads'])]
        worker = threading.Thread(target=self._free_worker, daemon=True)
        S._free_hook[0] = self._yield
        outcome = 'quiescent'
        try:
            worker.start()
            for h in hooks:
                h.start()
            for h in hooks:
                h.join(FREE_WATCHDOG_S)
                if h.is_alive():
                    outcome = 'watchdog'
            # quiescence: every queued job done (Queue.join without timeout
            # would hang the harness if the worker died)
            t_end = time.time() + FREE_WATCHDOG_S
            while outcome == 'quiescent' and worker.is_alive() and \
                    (len(b.task_queue.queue) or self.finished < sum(
                        1 for e in list(self.mon.log) if e['kind'] == 'deq')):
                if time.time() > t_end:
                    outcome = 'watchdog'
                time.sleep(0.0002)
            S._free_hook[0] = None
            if outcome == 'quiescent':
                self.quiescent_state = {
                    'pending': [getattr(j, 'vf_ev', None)
                                for j in list(b.task_queue.queue)],
                    'marker': 'current job' in b.status,
                    'worker_state': 'blocked',
                    'worker_alive': worker.is_alive(),
                    'tasks_done': [getattr(j, 'vf_ev', None)
                                   for j in b.tasks_done],
                    'hooks_finished': True}
        finally:
            S._free_hook[0] = None
            if worker.is_alive():
                stop = env.make_job(b, 0, None, 'stop')
                stop.vf_key = None         # never counts as an evaluation
                b.task_queue.put(stop)
                worker.join(FREE_WATCHDOG_S)
                if worker.is_alive():
                    self.sched.problems.append('free-running worker did not '
                                               'stop')
                    outcome = 'watchdog'
            env.cur = None
        return outcome

    def _free_worker(self):
        try:
            self._worker()
        except S.Abort:
            pass


# ---------------------------------------------------------------------------
# oracle (from the statement; shares nothing with bert_e)
def judge(run):
    """Returns (violations [(mechanism, text)], facts dict for counters)."""
    log = run.mon.log
    q = run.quiescent_state
    viol = []
    facts = collections.Counter()
    by_ev = {}
    for e in log:
        if e.get('ev') is not None:
            by_ev.setdefault(e['ev'], {})[e['kind']] = e['seq']
    deqs = [(e['seq'], e['key'], e['ev']) for e in log if e['kind'] == 'deq']
    # life of every job that was ever enqueued: key, enq, deq, finish
    jobs = []
    for ev, marks in by_ev.items():
        if 'enq' in marks:
            jobs.append({'ev': ev, 'enq': marks['enq'],
                         'deq': marks.get('deq'), 'start': marks.get('start'),
                         'finish': marks.get('finish')})
    key_of = {}
    for e in log:
        if e.get('ev') is not None:
            key_of[e['ev']] = e['key']

    # model of the pending multiset, for the reported (non-violation) facts
    pending = collections.Counter()
    for e in log:
        if e['kind'] == 'enq':
            if pending[e['key']] > 0:
                facts['duplicate_pending_enqueued'] += 1
            pending[e['key']] += 1
        elif e['kind'] == 'deq':
            pending[e['key']] -= 1

    for ev, marks in sorted(by_ev.items()):
        if 'accept' not in marks:
            continue
        k = key_of[ev]
        a = marks['accept']
        facts['events'] += 1
        if 'refused' in marks:
            facts['refused'] += 1
            err = [e for e in log if e['seq'] == marks['refused']][0]['err']
            facts['refused:' + err.split(':')[0]] += 1
            if 'enq' in marks:
                facts['refused_but_enqueued'] += 1
            continue
        if 'accepted' not in marks:
            facts['put_job_never_returned'] += 1      # run was cut short
            continue
        r = marks['accepted']
        facts['accepted_checked'] += 1
        others = [j for j in jobs if key_of[j['ev']] == k and j['ev'] != ev]
        # the window the statement warns about
        running = [j for j in others if j['deq'] is not None and j['deq'] < r
                   and (j['finish'] is None or j['finish'] > a)]
        done = [j for j in others if j['finish'] is not None
                and j['finish'] < r]
        if running:
            facts['accept_while_equal_running'] += 1
        if done:
            facts['accept_after_equal_done'] += 1
        later = [d for d in deqs if d[1] == k and d[0] > a]
        own = 'enq' in marks
        if own:
            facts['enqueued_own_job'] += 1
        else:
            facts['suppressed'] += 1
        if not later:
            why = ('equal-job-running' if running else
                   'equal-job-done' if done else 'no-equal-job')
            if own:
                why = 'own-job-never-dequeued'
            if run.worker_died is not None:
                why = 'worker-dead'
            viol.append((
                'accepted-event-not-evaluated-afterwards:' + why,
                'event %s on key %s: put_job returned normally (accept mark '
                '#%d, return #%d, %s) and no job on that key is dequeued '
                'after the accept mark' % (
                    ev, KEYS[k], a, r, 'own job enqueued' if own else
                    'suppressed as duplicate')))
            continue
        if not own:
            # "drops a job only while an equal job is still waiting"
            waiting = [j for j in others if j['enq'] < r and
                       (j['deq'] is None or j['deq'] > a)]
            if waiting:
                facts['suppressed_while_equal_pending'] += 1
            else:
                viol.append((
                    'job-dropped-while-no-equal-job-waiting',
                    'event %s on key %s was suppressed although no equal job '
                    'was waiting between its accept mark #%d and the return '
                    'of put_job #%d (a later event was evaluated instead)'
                    % (ev, KEYS[k], a, r)))

    # worker bookkeeping
    facts['finished_jobs_checked'] += run.finished
    for mech, what in run.book:
        viol.append((mech, '%s (%s)' % (mech, what)))
    for j in jobs:
        if j['deq'] is not None:
            facts['outcome_' + run.job_outcome(j['ev'])] += 1
    if run.worker_died is not None:
        viol.append(('worker-thread-died',
                     'process_task let %s escape: the worker loop of '
                     'server.setup_bert_e ends' % run.worker_died))
    if q is not None:
        facts['quiescence_checked'] += 1
        if not q['hooks_finished']:
            viol.append(('webhook-thread-stuck', 'a webhook thread is '
                         'blocked at quiescence'))
        if q['marker']:
            viol.append(('current-job-marker-left-at-quiescence',
                         "status['current job'] still set when nothing is "
                         'running'))
        if run.worker_died is None:
            if not q['worker_alive']:
                viol.append(('worker-thread-died', 'worker thread not alive '
                             'at quiescence'))
            elif q['pending']:
                viol.append(('worker-blocked-with-non-empty-queue',
                             'pending %r' % q['pending']))
            unfinished = [j['ev'] for j in jobs if j['deq'] is not None
                          and j['finish'] is None]
            if unfinished:
                viol.append(('dequeued-job-never-finished',
                             'jobs %r' % unfinished))
            if len(q['tasks_done']) != len(set(q['tasks_done'])) or \
                    sorted(q['tasks_done']) != sorted(
                        j['ev'] for j in jobs if j['finish'] is not None):
                viol.append(('tasks-done-does-not-list-finished-jobs',
                             'tasks_done=%r' % q['tasks_done']))
    return viol, facts


def _job_outcome(self, ev):
    ti, ei = ev.split('.')
    return self.cfg['outcomes'][int(ti)][int(ei)]


Run.job_outcome = _job_outcome


def nontrivial(run):
    tr = run.sched.trace
    for ev, (a, b) in run.windows.items():
        if b is None:
            continue
        ti = int(ev.split('.')[0])
        for x in tr[a:b]:
            if (x >> 16) != ti:
                return True
    return False


# ---------------------------------------------------------------------------
def run_one(env, cfg, strategy, acc, source, count=True):
    """Execute one schedule, judge it, feed the accumulator.  Returns the Run
    (None when the run was inconclusive)."""
    if source == 'free_running':
        run = FreeRun(env, cfg, strategy)
    else:
        run = Run(env, cfg, strategy)
    outcome = run.execute()
    if outcome != 'quiescent':
        acc.count('inconclusive_runs')
        acc.inconc('schedule ended with %s: %s' % (
            outcome, '; '.join(run.sched.problems)[:300]))
        return None
    viol, facts = judge(run)
    if not count:
        return run, viol, facts
    acc.evals += 1
    acc.count('schedules_' + source)
    for k, n in facts.items():
        acc.count(k, n)
    if facts['refused']:
        acc.count('schedules_with_refused_request')
    if facts['duplicate_pending_enqueued']:
        acc.count('schedules_with_duplicate_pending_jobs')
    acc.count('preemptions_total', run.sched.preemptions)
    acc.count('steps_total', len(run.sched.trace))
    acc.seen('shape', '%dx%d' % (len(cfg['threads']),
                                 max(len(t) for t in cfg['threads'])))
    if source != 'free_running' and (
            nontrivial(run) or facts['suppressed'] or facts['refused']):
        acc.nontrivial(run.trace_hash())
    for mech, text in viol:
        acc.violation(mech, '%s | workload threads=%r outcomes=%r | %d '
                      'preemption(s)' % (text, cfg['threads'],
                                         cfg['outcomes'],
                                         run.sched.preemptions),
                      {'cfg': cfg, 'choices': list(run.sched.choices),
                       'trace_hash': run.trace_hash()})
    if not viol and (facts['suppressed'] or facts['refused']) and \
            acc.evals % 97 == 1:
        acc.sample({'workload': cfg, 'choices': list(run.sched.choices)[:60],
                    'log': [_fmt(e) for e in run.mon.log],
                    'verdict': 'every accepted event is followed by a later '
                               'dequeue of an equal job; worker bookkeeping ok'})
    return run, viol, facts


def _fmt(e):
    s = '#%d %s' % (e['seq'], e['kind'])
    if e.get('ev') is not None:
        s += ' ev=%s key=%s' % (e['ev'], '%s:%s' % (
            KEYS[e['key']][0], str(KEYS[e['key']][1])[:4]))
    if e.get('err'):
        s += ' ' + e['err']
    return s


# ---------------------------------------------------------------------------
# workloads
def key_assignments(nthreads, nevents):
    """All assignments of the 2 keys to the events, modulo permutation of the
    webhook threads."""
    import itertools
    per_thread = list(itertools.product((0, 1), repeat=nevents))
    out = set()
    for combo in itertools.product(per_thread, repeat=nthreads):
        out.add(tuple(sorted(combo)))
    return sorted(out)


def make_cfg(assign, pair, rot):
    """assign: tuple per thread of 0/1 -> keys of the pair; outcomes rotate."""
    threads = [[KEY_PAIRS[pair][b] for b in t] for t in assign]
    outcomes, n = [], rot
    for t in assign:
        row = []
        for _ in t:
            row.append(OUTCOMES[n % len(OUTCOMES)])
            n += 1
        outcomes.append(row)
    return {'threads': threads, 'outcomes': outcomes}


def dfs_items(tier):
    """(nthreads, nevents, preemption bound, key pair index)."""
    if tier == 'quick':
        return [(2, 2, 1, 0), (2, 2, 1, 1), (2, 2, 1, 2),
                (3, 1, 1, 0), (3, 1, 1, 1), (3, 1, 1, 2),
                (3, 2, 1, 0)]
    return [(2, 2, 2, 0), (2, 2, 2, 1), (2, 2, 2, 2),
            (3, 1, 2, 0), (3, 1, 2, 1), (3, 1, 2, 2),
            (3, 2, 1, 0), (3, 2, 1, 1), (3, 2, 1, 2)]


def random_cfg(rng):
    nthreads = rng.choice((1, 2, 2, 3, 3, 3))
    pair = rng.randrange(len(KEY_PAIRS))
    same = rng.random() < 0.4
    first = rng.randrange(2)
    threads, outcomes = [], []
    for _ in range(nthreads):
        nev = rng.choice((1, 2, 2))
        threads.append([KEY_PAIRS[pair][first if same else rng.randrange(2)]
                        for _ in range(nev)])
        outcomes.append([rng.choice(OUTCOMES) for _ in range(nev)])
    return {'threads': threads, 'outcomes': outcomes}


def random_strategy(rng, cfg):
    nthreads = len(cfg['threads']) + 1
    u = rng.random()
    if u < 0.6:
        return S.PCT(rng, nthreads, rng.choice((1, 2, 2, 3, 3, 4, 5)),
                     rng.choice((40, 80, 120)))
    return S.RandomWalk(rng, rng.choice((0.03, 0.1, 0.3, 0.6)))


N_RANDOM = {'quick': 20000, 'thorough': 100000}
N_FREE = {'quick': 400, 'thorough': 4000}


def _pin(shard):
    """Only one managed thread runs at a time, so a shard never uses more
    than one core; keeping its threads on one core makes the hand-offs (a
    futex wake-up each) several times cheaper than cross-core wake-ups."""
    import os
    if os.environ.get('VERIF_C13_NOPIN'):
        return
    try:
        cpus = sorted(os.sched_getaffinity(0))
        if len(cpus) > 1:
            os.sched_setaffinity(0, {cpus[shard % len(cpus)]})
    except (AttributeError, OSError):
        pass


# ---------------------------------------------------------------------------
# webhook layer: acceptance must not depend on what the server has seen before
def run_webhook_layer(spec, acc):
    """Sequential companion in front of put_job (own shard, no scheduler):
    the real Flask routes, the real BertE.put_job, the real build-status
    cache (harness of the C17 check: scripted bitbucket / github hosts).

    Reference: every distinct status event (2 commits x 2 keys x 4 states)
    delivered to a FRESH server either queues a job or is ignored (an
    in-progress build).  Then histories of <= 4 operations over {webhook,
    poll by a job}: whenever the queue is EMPTY, an event that a fresh server
    turns into a job must be turned into a job - whatever was delivered,
    polled, cached or processed before (the statement allows suppression only
    while an equal job is waiting)."""
    import itertools
    import logging
    logging.disable(logging.CRITICAL)
    from vf.checks import c17
    tier, seed = spec['tier'], spec['seed']
    depth = 4 if tier == 'thorough' else 3
    for host in ('bitbucket', 'github'):
        if spec.get('host') not in (None, host):
            continue
        h = c17.Harness(host)
        q = h.bert_e.task_queue.queue

        def deliver(c, k, s):
            sha, key = c17.COMMITS[c], h.keys[k]
            h.set_world(sha, key, s)
            route, headers, body = h.webhook_request(sha, key, s)
            code = h.http.post(route, data=json.dumps(body).encode(),
                               headers=headers).status_code
            jobs = [type(j).__name__ + ':' + str(
                getattr(j, 'commit', None) or getattr(
                    getattr(j, 'pull_request', None), 'id', None))
                for j in list(q)]
            q.clear()
            return code, jobs
        events = [(c, k, st) for c in (0, 1) for k in (0, 1)
                  for st in c17.WEBHOOK_STATES]
        fresh = {}
        for ev in events:
            h.reset(1000)
            q.clear()
            fresh[ev] = deliver(*ev)
        acc.count('webhook_fresh_reference_events', len(fresh))
        acc.seen('webhook_fresh_outcomes', sorted(
            '%s:%s->%s' % (host, ev[2], 'job' if fresh[ev][1] else 'ignored')
            for ev in events))
        ops = [('w',) + ev for ev in events] + \
              [('p', c, k, st) for c in (0, 1) for k in (0, 1)
               for st in c17.POLL_STATES]
        rng = random.Random('c13-webhooks-%s-%s' % (seed, host))
        if depth == 3:
            hists = itertools.product(ops, repeat=3)
        else:
            hists = (tuple(rng.choice(ops) for _ in range(4))
                     for _ in range(60000))
        for hist in hists:
            if hist[-1][0] != 'w':
                continue
            h.reset(1000)
            q.clear()
            for i, op in enumerate(hist):
                if op[0] == 'p':
                    h.poll(*op[1:])
                    continue
                code, jobs = deliver(*op[1:])
                want = fresh[op[1:]]
                acc.evals += 1
                acc.count('webhook_deliveries_compared_with_a_fresh_server')
                if want[1] and i:
                    acc.count('webhook_job_events_after_a_history')
                    acc.nontrivial_disjoint += 1
                if (code, jobs) != want:
                    lost = want[1] and not jobs
                    acc.violation(
                        'accepted-webhook-dropped-because-of-earlier-events'
                        if lost else
                        'webhook-outcome-depends-on-earlier-events',
                        'host=%s after %r the event %r -> HTTP %s, jobs %s; '
                        'a fresh server answers HTTP %s, jobs %s' % (
                            host, hist[:i], op, code, jobs, want[0],
                            want[1]),
                        {'part': 'webhooks', 'host': host,
                         'history': [list(o) for o in hist[:i + 1]]})
    acc.exhaustive['webhook layer: histories of %d operations over 16 status '
                   'events + 16 polls, host %s' % (
                       depth, spec.get('host') or 'bitbucket, github')] = \
        depth == 3
    acc.count('shards_run')


def plan(tier, seed):
    # the 16 scheduler shards split their work modulo 16; the webhook-layer
    # companion runs in two more processes (one per host flavour)
    return [{'nshards': 16} for _ in range(16)] + [
        {'part': 'webhooks', 'host': 'bitbucket'},
        {'part': 'webhooks', 'host': 'github'}]


def run_shard(spec, acc):
    if spec.get('part') == 'webhooks':
        return run_webhook_layer(spec, acc)
    env = Env.get()
    tier, shard, n, seed = spec['tier'], spec['shard'], spec['nshards'], \
        spec['seed']
    _pin(shard)
    t0 = time.time()
    budget = SHARD_TIMEOUT[tier] * 0.8
    bad = [0]
    bad_dfs = [False]

    # -- bounded-preemption enumeration ----------------------------------------
    for (nt, ne, bound, pair) in dfs_items(tier):
        name = '%dx%d keys %s/%s, <=%d preemption(s)' % (
            nt, ne, '%s' % (KEYS[KEY_PAIRS[pair][0]][0]),
            '%s' % (KEYS[KEY_PAIRS[pair][1]][0]), bound)
        complete = True
        for ai, assign in enumerate(key_assignments(nt, ne)):
            cfg = make_cfg(assign, pair, seed + ai)

            def one(prefix, own, cfg=cfg):
                if time.time() - t0 > budget or bad[0] > 20:
                    return None
                strat = S.Forced(prefix)
                if own:
                    res = run_one(env, cfg, strat, acc, 'enumerated')
                else:
                    res = run_one(env, cfg, strat, acc, 'x', count=False)
                if res is None:
                    bad[0] += 1
                    bad_dfs[0] = True      # this subtree is not explored
                    return []
                if strat.diverged:
                    acc.inconc('replay of a choice prefix diverged')
                return res[0].sched.decisions
            runs, ok = S.dfs(one, bound, shard, n)
            complete = complete and ok and not bad_dfs[0]
        acc.exhaustive[name] = complete
        if not complete:
            acc.inconc('enumeration %s stopped by the time budget' % name)

    # -- seeded random schedules -----------------------------------------------
    total = N_RANDOM[tier]
    for i in range(shard, total, n):
        if time.time() - t0 > budget or bad[0] > 20:
            acc.inconc('random schedules stopped early at %d' % i)
            break
        rng = random.Random('c13-%d-%d' % (seed, i))
        cfg = random_cfg(rng)
        if run_one(env, cfg, random_strategy(rng, cfg), acc, 'random') is None:
            bad[0] += 1

    # -- complement: uncontrolled real threads, real blocking get() -------------
    for i in range(shard, N_FREE[tier], n):
        if time.time() - t0 > budget or bad[0] > 20:
            acc.inconc('free-running rounds stopped early at %d' % i)
            break
        rng = random.Random('c13-free-%d-%d' % (seed, i))
        cfg = random_cfg(rng)
        if run_one(env, cfg, rng.random(), acc, 'free_running') is None:
            bad[0] += 7
    acc.count('shards_run')


def replay(w, acc):
    if w.get('part') == 'webhooks':
        return run_webhook_layer({'tier': 'quick', 'seed': 1}, acc)
    env = Env.get()
    strat = S.Forced(w['choices'])
    res = run_one(env, w['cfg'], strat, acc, 'replay')
    if res is not None and w.get('trace_hash') and \
            res[0].trace_hash() != w['trace_hash']:
        print('note: the replay followed another (thread, line) sequence '
              'than the recorded one (source changed?)')
