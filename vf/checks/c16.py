"""C16 - the robot's credentials never leak.  W: every git command of explored
jobs made to fail / hang while printing the credentialed URL; H: GitHub
password and App flows on a scripted HTTP session."""
import io
import logging
import os
import random
import tempfile
import traceback
from urllib.parse import quote, quote_plus

from vf.common import env
from vf.world import runner, scenarios
from vf.world.fork import fork_try
from vf.world.world import World

ID = 'C16'
LEVEL = 'fault_enumeration'
RULE = ('W: worlds whose clone URL carries the robot\'s credentials (built as '
        'the github/bitbucket clients build it, mapped to the local bare '
        'repository by url.insteadOf); for explored jobs (first evaluation, '
        'integration update, queue entry, queue merge, direct merge, '
        'conflict, reset, decline, commit event, admin jobs) a reference '
        'child counts the git commands, then ONE CHILD PER COMMAND INDEX '
        '(sampled in the quick tier, all those whose argv carries the URL '
        'always included) with the git shim failing that command while '
        'printing the credentialed URL as git does, and a sample with the '
        'command hanging past the (shortened) timeout; passwords: '
        'alphanumeric, URL-special, shell-special, non-ASCII; DEBUG and INFO. '
        'Searched for the password (raw, quote, quote_plus forms) in: every '
        'log record incl. formatted exc_info with chained causes, fd-level '
        'stdout/stderr, job status/details/as_json, jobs listing, host '
        'comments.  H: github.Client password and App flows (real JWT '
        'signing) on a scripted session answering 200/401/403/404/422/5xx '
        'and raising ConnectionError/Timeout: password, "token <pw>", the '
        'signed JWT and the installation token searched in the same '
        'channels.  non-trivial = placement reached; distinct = (job kind, '
        'git subcommand, mode, password class, level) / (flow, reply class)')
ASSUMPTIONS = [
    'the failing git prints what real git prints for an unreachable remote: '
    'the URL with credentials, on stdout and stderr',
    'command timeout shortened from 300 s to 1.5 s by the harness for the '
    'hang placements',
    'the status page is represented by job.as_json() / get_jobs_as_json()',
]
MIN_NONTRIVIAL = 12
REQUIRED_COUNTERS = {'c16_clone_url_cells': 12,
                     'c16_placements_reached': 120, 'c16_hang_placements': 10,
                     'c16_url_argv_placements': 10, 'c16_http_calls': 40,
                     'c16_channels_scanned': 500,
                     'c16_app_token_request_fault_cells': 8}
SHARD_TIMEOUT = {'quick': 900, 'thorough': 5400}

PASSWORDS = {
    'alnum': 'S3cretSentinelPw42',
    'url-special': 'p@ss:w rd?&=#%+end',
    'shell-special': 'a\'b"c$d`e;f|g&h',
    'non-ascii': 'pässwörd☃X',
}
SCEN = ['first_eval', 'queue_entry', 'queue_merge', 'source_moved',
        'conflict', 'reset', 'decline', 'rebuild', 'delete_queues',
        'force_merge', 'create_branch', 'delete_branch', 'two_merge']


def plan(tier, seed):
    return [{} for _ in range(16)]


def sentinels(pw):
    out = {pw, quote(pw), quote_plus(pw), quote(pw, safe='')}
    return sorted(s for s in out if len(s) >= 6)


class Capture:
    """log records (message + exc_info with chained causes) and fd-level
    stdout / stderr of this process and its children"""
    def __init__(self, level):
        self.level = level
        self.records = []

    def __enter__(self):
        cap = self

        class H(logging.Handler):
            def emit(self, record):
                try:
                    msg = record.getMessage()
                except Exception as err:
                    msg = 'unformattable %r %r (%s)' % (record.msg,
                                                        record.args, err)
                exc = ''
                if record.exc_info:
                    exc = ''.join(traceback.format_exception(
                        *record.exc_info))
                cap.records.append((record.name, msg, exc))
        self.h = H()
        self.root = logging.getLogger()
        self.old_level = self.root.level
        self.old_handlers = list(self.root.handlers)
        for h in self.old_handlers:
            self.root.removeHandler(h)
        self.root.addHandler(self.h)
        self.root.setLevel(self.level)
        logging.disable(logging.NOTSET)
        self.files = []
        self.saved = []
        for fd in (1, 2):
            f = tempfile.TemporaryFile(dir=env.scratch_root())
            self.files.append(f)
            self.saved.append(os.dup(fd))
            os.dup2(f.fileno(), fd)
        return self

    def __exit__(self, *a):
        import sys
        sys.stdout.flush()
        sys.stderr.flush()
        self.out = []
        for fd, f, saved in zip((1, 2), self.files, self.saved):
            os.dup2(saved, fd)
            os.close(saved)
            f.seek(0)
            self.out.append(f.read().decode('utf-8', 'replace'))
            f.close()
        self.root.removeHandler(self.h)
        for h in self.old_handlers:
            self.root.addHandler(h)
        self.root.setLevel(self.old_level)
        logging.disable(logging.CRITICAL)

    def channels(self):
        ch = []
        for name, msg, exc in self.records:
            ch.append(('log-message', msg))
            if exc:
                ch.append(('log-exc-info', exc))
        ch.append(('stdout', self.out[0]))
        ch.append(('stderr', self.out[1]))
        return ch


def scan(channels, secrets):
    hits = []
    for name, text in channels:
        if not text:
            continue
        for s in secrets:
            i = text.find(s)
            if i >= 0:
                hits.append((name, text[max(0, i - 80):i + len(s) + 40]))
                break
    return hits


# -- W part -------------------------------------------------------------------
def job_channels(world, rec, cap):
    ch = cap.channels()
    job = rec['job']
    if job is not None:
        ch.append(('job-status', str(job.status)))
        ch.append(('job-details', str(job.details)))
        try:
            ch.append(('job-json', job.as_json()))
        except Exception as err:
            ch.append(('job-json', 'as_json failed: %s' % err))
        try:
            ch.append(('jobs-listing', world.berte.get_jobs_as_json()))
        except Exception as err:
            ch.append(('jobs-listing', 'failed: %s' % err))
    for pid, comments in rec['after'].comments.items():
        for (u, t) in comments:
            ch.append(('comment', t))
    return ch


def leak_child(world, event, at, mode, level):
    kind, arg, kw = event

    def child():
        import bert_e.lib.git as libgit
        text = ("fatal: unable to access '%s/': Could not resolve host: "
                "githost.invalid" % world.cred_url)
        n0 = world.shim.ncommands()
        if at is not None:
            world.shim.set(leak_at=n0 + at, leak_mode=mode, leak_text=text)
        if mode == 'hang':
            orig = libgit.cmd

            def short(command, **kwargs):
                kwargs.setdefault('timeout', 1.5)
                return orig(command, **kwargs)
            libgit.cmd = short
        with Capture(level) as cap:
            rec = world.run(kind, arg, record=False, **kw)
        world.shim.clear()
        gitlog = [l for l in world.shim.log() if l[0] > n0]
        ch = job_channels(world, rec, cap)
        hits = scan(ch, sentinels(world.password))
        victim = None
        if at is not None and len(gitlog) >= at:
            victim = gitlog[at - 1][3]
        return {'status': rec['status'], 'ncmd': len(gitlog),
                'victim': victim, 'hits': hits, 'nchannels': len(ch),
                'cmds': [l[3][:120] for l in gitlog] if at is None else None}
    return fork_try(world, child, timeout=180)


def explore_job(acc, spec, sc, layout, qm, pwclass, level, rng):
    world = None
    try:
        world, label, event = scenarios.build(
            sc, layout=layout, queue_mode=qm, credentials_url=True,
            password=PASSWORDS[pwclass])
        if sc == 'commit_event':
            pass
        ref = leak_child(world, event, None, None, level)
        if 'inconclusive' in ref:
            acc.count('c16_reference_inconclusive')
            acc.notes.append('reference: %s' % ref['inconclusive'][:200])
            return
        acc.count('c16_explored_jobs')
        acc.seen('c16_explored', '%s:%s' % (label, ref['status']))
        base = {'scenario': sc, 'layout': layout, 'queue_mode': qm,
                'password_class': pwclass, 'level': level}
        report(acc, base, label, None, None, ref, pwclass, level)
        n = ref['ncmd']
        url_cmds = [i + 1 for i, c in enumerate(ref['cmds'])
                    if 'githost.invalid' in c]
        idxs = list(range(1, n + 1))
        if spec['tier'] == 'quick':
            rng.shuffle(idxs)
            idxs = sorted(set(idxs[:10]) | set(url_cmds[:4]))
        hang = set(url_cmds[:2]) | set(rng.sample(
            range(1, n + 1), min(n, 1 if spec['tier'] == 'quick' else 8)))
        for i in idxs:
            for mode in ['fail'] + (['hang'] if i in hang else []):
                res = leak_child(world, event, i, mode, level)
                acc.evals += 1
                if 'inconclusive' in res:
                    acc.count('c16_children_inconclusive')
                    continue
                if res['victim'] is None:
                    acc.count('c16_placements_not_reached')
                    continue
                acc.count('c16_placements_reached')
                if mode == 'hang':
                    acc.count('c16_hang_placements')
                if 'githost.invalid' in res['victim']:
                    acc.count('c16_url_argv_placements')
                report(acc, base, label, i, mode, res, pwclass, level)
    finally:
        if world is not None:
            world.close()


def report(acc, base, label, at, mode, res, pwclass, level):
    sub = (res.get('victim') or 'none').split()
    sub = ' '.join(sub[:2]) if sub[:1] == ['remote'] else sub[0]
    acc.count('c16_channels_scanned', res['nchannels'])
    if at is not None:
        acc.nontrivial('%s|%s|%s|%s|%s' % (label, sub, mode, pwclass,
                                           logging.getLevelName(level)))
    acc.seen('c16_outcomes', '%s/%s->%s' % (sub, mode, res['status']))
    for (channel, snippet) in res['hits']:
        url_in_argv = 'githost.invalid' in (res.get('victim') or '')
        acc.violation(
            'credentials-in-%s%s%s' % (
                channel, ':%s' % mode if mode else ':no-fault',
                ':url-in-argv' if url_in_argv else ''),
            '%s: git command %s (%s) %s -> job %s; %s contains the '
            'password: ...%s...' % (label, at, res.get('victim'), mode,
                                    res['status'], channel, snippet),
            dict(base, at=at, mode=mode))
    if not res['hits'] and at is not None and len(acc.samples) < 5:
        acc.sample(dict(base, failing_git_command=res['victim'], mode=mode,
                        job_status=res['status'],
                        channels_scanned=res['nchannels'], leaks=0))


# -- H part -------------------------------------------------------------------
def run_http(acc, level):
    import requests
    from cryptography.hazmat.primitives import serialization
    from cryptography.hazmat.primitives.asymmetric import rsa
    from bert_e.git_host import github
    from vf.http import c17_scripted as sc
    sc.patch_sleep()
    key = rsa.generate_private_key(public_exponent=65537, key_size=2048)
    pem = key.private_bytes(
        serialization.Encoding.PEM, serialization.PrivateFormat.PKCS8,
        serialization.NoEncryption()).decode()
    replies = [200, 401, 403, 404, 422, 500, 502,
               requests.exceptions.ConnectionError('conn refused'),
               requests.exceptions.Timeout('timed out')]
    TOKEN = 'ghs_InstallationTokenSENTINEL0123456789'
    import base64
    from bert_e.git_host import bitbucket
    for flow in ('password', 'app', 'bitbucket'):
        for pwclass, pw in sorted(PASSWORDS.items()):
            if flow == 'app' and pwclass != 'alnum':
                continue
            # the App flow's own token request can fail too (first answers
            # of the host to POST .../access_tokens, then 201)
            token_scripts = [()]
            if flow == 'app':
                token_scripts += [
                    (500,), (502,), (429,), (500, 500, 500, 500, 500, 500),
                    (401,), (404,),
                    (requests.exceptions.ConnectionError('conn reset'),),
                    (requests.exceptions.Timeout('timed out'),)]
            for reply, token_script in (
                    [(r, ()) for r in replies] +
                    [(200, t) for t in token_scripts[1:]]):
                jwts = []
                pending = list(token_script)

                def responder(req, reply=reply, jwts=jwts, pending=pending):
                    auth = req.header('Authorization') or ''
                    if 'access_tokens' in req.path:
                        jwts.append(auth.replace('Bearer ', ''))
                        if pending:
                            t = pending.pop(0)
                            if isinstance(t, int):
                                return sc.Reply(t, json={
                                    'message': 'error %d' % t})
                            return t
                        return sc.Reply(201, json={'token': TOKEN})
                    if isinstance(reply, int):
                        if reply == 200:
                            return sc.Reply(200, json={})
                        return sc.Reply(reply, json={
                            'message': 'error %d for %s' % (reply, auth)})
                    return reply
                adapter = sc.ScriptedAdapter(responder=responder)
                # the App flow talks to the host from the constructor: every
                # new session gets the scripted transport
                from bert_e.git_host import base as ghbase
                real_session = ghbase.BertESession

                class ScriptedSession(real_session):
                    def __init__(self, *a, **k):
                        super().__init__(*a, **k)
                        self.mount('https://', adapter)
                        self.mount('http://', adapter)
                ghbase.BertESession = ScriptedSession
                with Capture(level) as cap:
                    errs = []
                    try:
                        if flow == 'app':
                            client = github.Client(
                                'robot', pw, 'robot@x.invalid', app_id=1234,
                                installation_id=5678, private_key=pem)
                        elif flow == 'bitbucket':
                            client = bitbucket.Client('robot', pw,
                                                      'robot@x.invalid')
                        else:
                            client = github.Client('robot', pw,
                                                   'robot@x.invalid')
                        if flow == 'bitbucket':
                            calls = [
                                lambda: client.get_repository('slug',
                                                              'owner'),
                                lambda: client.get_user_id(),
                                lambda: bitbucket.PullRequest.get(
                                    client, full_name='owner/slug',
                                    pull_request_id=1),
                                lambda: bitbucket.Repository(
                                    client, repo_slug='slug', owner='owner'
                                ).get_build_status('abc123', 'pre-merge'),
                            ]
                        else:
                            calls = [
                                lambda: client.get_repository('slug', 'owner'),
                                lambda: github.Repository.get(
                                    client, owner='owner', repo='slug'),
                                lambda: github.PullRequest.get(
                                    client, owner='owner', repo='slug',
                                    number=1),
                                lambda: github.AggregatedStatus.get(
                                    client, owner='owner', repo='slug',
                                    ref='abc'),
                                lambda: github.Status.create(
                                    client, data={'state': 'success'},
                                    owner='owner', repo='slug', sha='abc'),
                                lambda: github.Comment.create(
                                    client, data={'body': 'hi'}, owner='owner',
                                    repo='slug', number=1),
                            ]
                        for c in calls:
                            acc.count('c16_http_calls')
                            try:
                                c()
                            except Exception as err:
                                errs.append(err)
                                logging.getLogger('harness').exception(
                                    'call failed: %s', err)
                    except Exception as err:
                        errs.append(err)
                        logging.getLogger('harness').exception(
                            'client failed: %s', err)
                ghbase.BertESession = real_session
                ch = cap.channels()
                for e in errs:
                    # the exception *message* is a sink named by the
                    # statement; repr() of a library exception is not
                    ch.append(('exception-str', str(e)))
                secrets = sentinels(pw)
                if flow == 'bitbucket':
                    secrets = secrets + [base64.b64encode(
                        ('robot:%s' % pw).encode('latin1', 'replace')
                    ).decode()]
                    try:
                        secrets.append(base64.b64encode(
                            ('robot:%s' % pw).encode('utf-8')).decode())
                    except Exception:
                        pass
                if flow == 'app':
                    secrets = [TOKEN] + [j for j in jwts if len(j) > 20]
                    if not jwts:
                        acc.count('c16_app_flow_without_jwt')
                hits = scan(ch, secrets)
                acc.evals += 1
                acc.count('c16_channels_scanned', len(ch))
                rname = reply if isinstance(reply, int) else \
                    type(reply).__name__
                if token_script:
                    t = token_script[0]
                    rname = 'token-request:%s%s' % (
                        t if isinstance(t, int) else type(t).__name__,
                        'x%d' % len(token_script)
                        if len(token_script) > 1 else '')
                    acc.count('c16_app_token_request_fault_cells')
                acc.nontrivial('http|%s|%s|%s' % (flow, pwclass, rname))
                acc.count('c16_http_cells')
                for channel, snippet in hits:
                    acc.violation(
                        '%s-flow-secret-in-%s' % (
                            'bitbucket' if flow == 'bitbucket' else
                            'github-' + flow, channel),
                        'github %s flow, host answers %s: %s contains a '
                        'secret: ...%s...' % (flow, rname, channel,
                                              snippet[:160]),
                        {'http': True, 'flow': flow, 'pwclass': pwclass,
                         'reply': str(rname)})
                if token_script and not jwts:
                    acc.count('c16_app_token_fault_without_jwt')
                # sanity: the secret did go out in the Authorization header
                sent = [r.header('Authorization') or ''
                        for r in adapter.requests]
                if any(s in a for a in sent for s in secrets):
                    acc.count('c16_http_secret_was_sent')


def run_clone_url_consistency(acc, level):
    """Two sites that must agree: the clone URL built by the git-host client
    and the mask BertE gives to its git repository.  A real BertE is built
    on the github / bitbucket clients (scripted transport), then a git
    command that prints the clone URL fails through the real
    Repository.cmd: no secret of the URL may survive in the error, the logs
    or stdout."""
    import requests
    from cryptography.hazmat.primitives import serialization
    from cryptography.hazmat.primitives.asymmetric import rsa
    from bert_e.bert_e import BertE
    from bert_e.git_host import base as ghbase
    from bert_e.lib.simplecmd import CommandError
    from vf.func import stubs
    from vf.http import c17_scripted as sc
    key = rsa.generate_private_key(public_exponent=65537, key_size=2048)
    pem = key.private_bytes(
        serialization.Encoding.PEM, serialization.PrivateFormat.PKCS8,
        serialization.NoEncryption()).decode()
    TOKEN = 'ghs_InstallationTokenSENTINEL9876543210'
    for host, app in (('github', False), ('github', True),
                      ('bitbucket', False)):
        for pwclass, pw in sorted(PASSWORDS.items()):
            if pwclass == 'non-ascii' and host == 'bitbucket':
                continue          # requests cannot send it as basic auth
            def responder(req):
                if 'access_tokens' in req.path:
                    return sc.Reply(201, json={'token': TOKEN})
                if host == 'github':
                    return sc.Reply(200, json={
                        'name': 'slug', 'full_name': 'owner/slug',
                        'owner': {'login': 'owner', 'id': 1,
                                  'type': 'User'},
                        'private': True, 'default_branch': 'main'})
                return sc.Reply(200, json={
                    'name': 'slug', 'full_name': 'owner/slug', 'scm': 'git',
                    'is_private': True, 'owner': {'username': 'owner'},
                    'account_id': 'acc-1', 'uuid': '{u}'})
            adapter = sc.ScriptedAdapter(responder=responder)
            real_session = ghbase.BertESession

            class ScriptedSession(real_session):
                def __init__(self, *a, **k):
                    super().__init__(*a, **k)
                    self.mount('https://', adapter)
                    self.mount('http://', adapter)
            ghbase.BertESession = ScriptedSession
            if host == 'bitbucket':
                from bert_e.git_host import bitbucket
                bases = bitbucket.Client.__bases__
                bitbucket.Client.__bases__ = tuple(
                    ScriptedSession if b is real_session else b
                    for b in bases)
            over = {'repository_host': host, 'robot': 'robot'}
            if app:
                over.update(github_app_id=1234, github_installation_id=5678)
            settings = stubs.make_settings(**over)
            settings['robot_password'] = pw
            if app:
                settings['github_private_key'] = pem
            errs, url = [], None
            with Capture(level) as cap:
                try:
                    berte = BertE(settings)
                    url = berte.git_repo._url
                    try:
                        berte.git_repo.cmd(
                            'echo "fatal: unable to access %s/: Could not '
                            'resolve host"; exit 128', url)
                    except CommandError as err:
                        errs.append(err)
                        logging.getLogger('harness').exception(
                            'git failed: %s', err)
                    berte.git_repo.delete()
                except Exception as err:
                    errs.append(err)
            ghbase.BertESession = real_session
            if host == 'bitbucket':
                bitbucket.Client.__bases__ = bases
            acc.evals += 1
            flow = '%s%s' % (host, '-app' if app else '')
            if url is None:
                acc.count('c16_clone_url_setup_failed')
                acc.notes.append('clone-url consistency %s/%s: %s' % (
                    flow, pwclass, [str(e)[:120] for e in errs]))
                continue
            acc.count('c16_clone_url_cells')
            acc.nontrivial('clone-url|%s|%s|%s' % (
                flow, pwclass, logging.getLevelName(level)))
            ch = cap.channels()
            for e in errs:
                ch.append(('exception-str', str(e)))
            secrets = sentinels(pw) + [TOKEN]
            # only secrets that really are in the URL can leak from it
            secrets = [x for x in secrets if x in url]
            if not secrets:
                acc.count('c16_clone_url_without_known_secret')
            hits = scan(ch, secrets)
            acc.count('c16_channels_scanned', len(ch))
            for channel, snippet in hits:
                acc.violation(
                    'clone-url-secret-not-covered-by-the-mask:%s:%s' % (
                        flow, channel),
                    '%s client, password class %s: a failing git command '
                    'that prints the clone URL leaves a secret in %s: '
                    '...%s...' % (flow, pwclass, channel, snippet[:200]),
                    {'http': True, 'clone_url': True, 'flow': flow,
                     'pwclass': pwclass})


def run_shard(spec, acc):
    runner.quiet()
    rng = random.Random('c16-%s-%s' % (spec['seed'], spec['shard']))
    combos = [(sc, pw) for sc in SCEN for pw in sorted(PASSWORDS)]
    random.Random('c16-%s' % spec['seed']).shuffle(combos)
    seen, ranked = {}, []
    for c in combos:
        seen[c[0]] = seen.get(c[0], 0) + 1
        ranked.append((seen[c[0]], c))
    ranked.sort(key=lambda x: x[0])
    mine = [c for _, c in ranked][spec['shard']::spec['nshards']]
    n = 1 if spec['tier'] == 'quick' else len(mine)
    for j, (sc, pw) in enumerate(mine[:n]):
        level = [logging.DEBUG, logging.INFO][(spec['shard'] + j) % 2]
        layout = rng.choice(['d2', 's1d2'])
        qm = rng.choice(['queue', 'queue', 'skipqueue', 'noqueue'])
        if qm == 'noqueue' and sc in ('queue_merge', 'two_merge', 'rebuild',
                                      'delete_queues', 'force_merge',
                                      'create_branch'):
            qm = 'queue'
        try:
            explore_job(acc, spec, sc, layout, qm, pw, level, rng)
        except Exception as err:
            acc.count('harness_errors')
            acc.notes.append('%s/%s: %s: %s' % (sc, pw, type(err).__name__,
                                                str(err)[:300]))
    if spec['shard'] in (0, 1):
        run_http(acc, [logging.DEBUG, logging.INFO][spec['shard']])
    if spec['shard'] in (2, 3):
        run_clone_url_consistency(
            acc, [logging.DEBUG, logging.INFO][spec['shard'] - 2])


def finalize(acc, tier, seed):
    if acc.counters.get('harness_errors', 0) > 3:
        acc.inconc('%d harness errors' % acc.counters['harness_errors'])
    if not acc.counters.get('c16_http_secret_was_sent'):
        acc.inconc('the HTTP part never saw a secret leave in an '
                   'Authorization header: the scripted session is not wired')


def replay(witness, acc):
    runner.quiet()
    if witness.get('clone_url'):
        run_clone_url_consistency(acc, logging.DEBUG)
        return
    if witness.get('http'):
        run_http(acc, logging.DEBUG)
        return
    world, label, event = scenarios.build(
        witness['scenario'], layout=witness['layout'],
        queue_mode=witness['queue_mode'], credentials_url=True,
        password=PASSWORDS[witness['password_class']])
    try:
        res = leak_child(world, event, witness['at'], witness['mode'],
                         witness['level'])
        report(acc, witness, label, witness['at'], witness['mode'], res,
               witness['password_class'], witness['level'])
    finally:
        world.close()
