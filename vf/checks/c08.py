"""C08 - Bert-E never rewrites or deletes what it does not own (world
harness; ownership monitor on every job + one third-party action placed
before every push of explored jobs)."""
import random

from vf.world import faults, gen, monitors, runner, scenarios
from vf.world.world import World

ID = 'C08'
LEVEL = 'fault_enumeration'
RULE = ('(1) ownership monitor after every job of generated histories: '
        'destination updates are fast-forwards, no ref outside w/ q/ tmp/ and '
        'the destinations changes or disappears, a deleted destination has '
        'its archive tag on the old tip, every former destination tip stays '
        'reachable, no forced push / foreign deletion in the argv seen by the '
        'git shim; (2) for explored jobs (directed scenarios, random states '
        'in the thorough tier) a reference child lists the pushes, then ONE '
        'CHILD PER (push, third-party action) with the action (create a '
        'feature / user / unclassifiable branch; push to, amend or rewind a '
        'PR source branch) executed by the shim immediately before that push; '
        'the foreign ref must have the third party\'s value afterwards; '
        'non-trivial = placement that was reached; distinct = (job kind, '
        'push form, action)')
ASSUMPTIONS = [
    'the third party acts exactly once, immediately before one push',
    'mock host + real bare repository + real git; reachability is computed '
    'with git for-each-ref --contains over branches and tags',
]
MIN_NONTRIVIAL = 10
REQUIRED_COUNTERS = {'c08_placements_with_the_push_refused_once': 40,
                     'c08_explored_jobs': 12, 'c08_placements_reached': 40,
                     'c08_jobs_checked': 100}
SHARD_TIMEOUT = {'quick': 900, 'thorough': 5400}
MONITORS = [monitors.c08_ownership]
LAYOUTS = ['d2', 's1d2', 'd1M1d2', 'h1d2', 'd3']
SCEN = ['first_eval', 'queue_entry', 'queue_merge', 'second_entry',
        'two_merge', 'source_moved', 'decline', 'reset', 'rebuild',
        'delete_queues', 'force_merge', 'create_branch', 'delete_branch',
        'conflict_later', 'delete_branch_with_queue']


def combos(seed):
    out = []
    for sc in SCEN:
        for layout in LAYOUTS:
            for qm in ('queue', 'noqueue', 'skipqueue'):
                if qm == 'noqueue' and sc in (
                        'queue_merge', 'second_entry', 'two_merge', 'rebuild',
                        'delete_queues', 'force_merge', 'create_branch'):
                    continue
                out.append((sc, layout, qm))
    random.Random('c08-%s' % seed).shuffle(out)
    seen, ranked = {}, []
    for c in out:
        seen[c[0]] = seen.get(c[0], 0) + 1
        ranked.append((seen[c[0]], c))
    ranked.sort(key=lambda x: x[0])
    return [c for _, c in ranked]


def plan(tier, seed):
    return [{} for _ in range(16)]


def source_of(world, event):
    snap = world.snapshot()
    prs = [p for p in snap.prs if p['author'] != 'robot']
    if event[0] == 'pr':
        p = snap.pr(int(event[1]))
        if p and p['author'] != 'robot':
            return p['src']
    return prs[0]['src'] if prs else ''


def run_shard(spec, acc):
    runner.quiet()
    cs = combos(spec['seed'])[spec['shard']::spec['nshards']]
    count = 2 if spec['tier'] == 'quick' else 20
    for (sc, layout, qm) in cs[:count]:
        world = None
        try:
            world, label, event = scenarios.build(sc, layout=layout,
                                                  queue_mode=qm)
            faults.explore_c08(world, event, acc, label,
                               source_of(world, event))
        except Exception as err:
            acc.count('harness_errors')
            acc.notes.append('%r: %s: %s' % ((sc, layout, qm),
                                             type(err).__name__,
                                             str(err)[:300]))
        finally:
            if world is not None:
                world.close()
    # ownership monitor on generated histories
    configs = [{'layout': l, 'queue_mode': q}
               for l in ('d2', 's1d2', 'd1M1d2', 'h1d2', 's2d2')
               for q in ('queue', 'noqueue', 'skipqueue')]
    prof = gen.profile(p_green=0.85, p_forward=0.6,
                       w={'admin': 2, 'amend': 2, 'rebase': 2, 'decline': 1})
    n_hist, jobs = (4, 12) if spec['tier'] == 'quick' else (60, 20)
    runner.run_histories(spec, acc, configs, prof, MONITORS, n_hist, jobs,
                         openers=[None, gen.OPENERS['two_prs_same_base']],
                         soft_cap_s=500 if spec['tier'] == 'quick' else 4000)


def finalize(acc, tier, seed):
    runner.harness_health(acc)


def replay(witness, acc):
    runner.quiet()
    if 'placement' not in witness:
        return runner.replay_world(witness, acc, MONITORS)
    cfg = witness['config']
    world = World(layout=cfg['layout'], queue_mode=cfg['queue_mode'],
                  seed=cfg.get('seed', 0), settings=cfg.get('settings'),
                  cmd_line_options=cfg.get('cmd_line_options', ()))
    try:
        for step in witness['history']:
            world.apply(step)
            world.drain()
        ev = tuple(witness['event'])
        pl = witness['placement']
        res = faults.third_party_child(world, ev, pl['before_push'],
                                       pl['action'], source_of(world, ev))
        for v in res.get('violations', []):
            acc.violation(v['mechanism'], v['desc'], v['witness'])
    finally:
        world.close()
