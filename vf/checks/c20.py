"""C20 - branch and queue admin jobs keep the repository well-formed or do
nothing (world harness; every admin request tried in a fork child at sampled
states, one applied for real)."""
import random

from vf.world import gen, monitors, oracle, runner
from vf.world.fork import fork_try
from vf.world.world import World, ROBOT, rec_summary

ID = 'C20'
LEVEL = 'exploration'
RULE = ('at states of generated histories (0-3 queued PRs incl. hotfix '
        'queues, queues on and off) EVERY admin request of a catalogue is '
        'tried in a fork child: create-branch for development older than / '
        'between / newer than the existing ones, existing, archived, '
        'stabilization with / without its development branch and with a '
        'stale micro, hotfix with / without its tag, each with branch_from '
        'absent / a branch / a commit inside / outside the latest '
        'development branch; delete-branch of every destination; rebuild / '
        'delete / force-merge queues; one of them is then applied for real. '
        'Oracles on the refs and tags of the remote: new ref set obeys the '
        'cascade rules and C01; no older development branch while PRs are '
        'queued; no archived version; delete refused with queued PRs or a '
        'live stabilization branch, else archive tag on the old tip; a '
        'refusing job changes nothing; queue jobs touch only q/*; rebuild '
        'leaves exactly the queued PRs pending, in queue order (order within '
        'the main queue and within each hotfix queue: they are independent).  distinct = '
        '(job kind, request class, status, queue state)')
ASSUMPTIONS = [
    'mock host + real git + real Bert-E; sampled states',
    'only the safe direction is asserted for refusals (over-refusal is '
    'reported in the evidence, not failed)',
    'queue order = order in which the q/w/<id>/ refs first appeared on the '
    'remote (harness record)',
]
MIN_NONTRIVIAL = 25
REQUIRED_COUNTERS = {'c20_admin_jobs_checked': 300,
                     'c20_create_success': 20, 'c20_delete_success': 10,
                     'c20_refusals_checked': 60, 'c20_rebuilds_checked': 8}
SHARD_TIMEOUT = {'quick': 900, 'thorough': 5400}


def plan(tier, seed):
    return [{} for _ in range(16)]


def queued_ids(refs):
    return sorted({int(n.split('/')[2]) for n in refs
                   if n.startswith('q/w/')})


def cascade_problems(refs, tags):
    """cascade rules of the statement (C09) on a ref set"""
    probs = []
    names = [n for n in refs if oracle.is_dest(n)]
    stabs = {}
    for n in names:
        p = oracle.parse_dest(n)
        if p[0] == 'stab':
            stabs.setdefault((p[1], p[2]), []).append(n)
    for (x, y), lst in stabs.items():
        if len(lst) > 1:
            probs.append('two stabilization branches for %d.%d: %s'
                         % (x, y, lst))
        if 'development/%d.%d' % (x, y) not in names:
            probs.append('%s without development/%d.%d' % (lst, x, y))
        for n in lst:
            z = oracle.parse_dest(n)[3]
            for t in tags:
                tp = t.lstrip('v').split('.')
                if len(tp) in (3, 4) and all(c.isdigit() for c in tp):
                    if (int(tp[0]), int(tp[1])) == (x, y) and \
                            int(tp[2]) >= z:
                        probs.append('%s although release tag %s exists'
                                     % (n, t))
    return probs


def request_catalogue(world, rng):
    heads, tags = world.refs()
    dests = sorted(n for n in heads if oracle.is_dest(n))
    devs = sorted(n for n in dests if n.startswith('development/'))
    last = devs[-1] if devs else None
    reqs = []
    names = ['development/0.5', 'development/1.5', 'development/7.0',
             'development/1.0', 'development/2.0', 'stabilization/1.0.0',
             'stabilization/1.0.3', 'stabilization/2.0.0',
             'stabilization/5.0.0', 'hotfix/0.9.0', 'hotfix/0.9.1',
             'hotfix/1.0.0']
    archived = [t for t in tags if t.count('.') in (1, 2) and
                ('development/' + t not in heads) and
                ('stabilization/' + t not in heads)]
    for t in archived[:2]:
        names.append(('development/' if t.count('.') == 1
                      else 'stabilization/') + t)
    for name in names:
        froms = [None]
        r = rng.random()
        if last and r < 0.5:
            froms.append(rng.choice([
                'tip:' + last, 'tip:' + devs[0],
                'hist:%s:0' % last,
                'tip:' + rng.choice(sorted(heads))]))
        for f in froms:
            reqs.append(('create_branch', name, {'branch_from': f} if f
                         else {}))
    for d in dests:
        reqs.append(('delete_branch', d, {}))
        # the same request while the server refuses the deletion of that
        # branch (branch permissions): the job must refuse and leave the
        # remote as it was
        reqs.append(('delete_branch', d, {'server_refuses_deletion': True}))
    reqs.append(('delete_branch', 'development/9.9', {}))
    for k in ('rebuild_queues', 'delete_queues', 'force_merge_queues'):
        reqs.append((k, None, {}))
    return reqs


def check_admin(world, req, rec, acc, queue_order, real=False):
    kind, arg, kw = req
    b, a = rec['before'], rec['after']
    st = rec['status']
    acc.evals += 1
    acc.count('c20_admin_jobs_checked')
    qb = queued_ids(b.refs)
    refs_changed = {n for n in set(a.refs) | set(b.refs)
                    if a.refs.get(n) != b.refs.get(n)}
    tags_changed = {n for n in set(a.tags) | set(b.tags)
                    if a.tags.get(n) != b.tags.get(n)}
    cls = request_class(kind, arg, kw, b) + (
        '+refused-by-server' if kw.get('server_refuses_deletion') else '')
    acc.nontrivial('%s|%s|%s|queued=%d|%s' % (kind, cls, st, min(len(qb), 2),
                                              world.queue_mode))
    acc.seen('c20_outcomes', '%s/%s:%s' % (kind, cls, st))
    wit = {'config': world.config(), 'history': list(world.history),
           'request': [kind, arg, kw], 'job': rec_summary(rec)}
    probs = []
    if kw.get('server_refuses_deletion'):
        acc.count('c20_deletions_refused_by_the_server')
        if arg in b.refs and arg not in a.refs:
            probs.append(('harness: refused deletion went through', arg))
        elif refs_changed or tags_changed:
            probs.append(('failed-delete-branch-leaves-partial-effect',
                          '%s(%s) with the server refusing the deletion -> '
                          '%s, but refs %s / tags %s changed' % (
                              kind, arg, st, sorted(refs_changed),
                              sorted(tags_changed))))
    if st in ('JobFailure', 'NothingToDo', 'NotMyJob'):
        acc.count('c20_refusals_checked')
        if refs_changed or tags_changed:
            probs.append(('refusing-job-changes-the-remote',
                          '%s(%s) -> %s but refs %s / tags %s changed' % (
                              kind, arg, st, sorted(refs_changed),
                              sorted(tags_changed))))
    if kind == 'create_branch' and arg in a.refs and arg not in b.refs:
        acc.count('c20_create_success')
        before_ok = not monitors.broken_pairs(
            world, {n: s for n, s in b.refs.items() if oracle.is_dest(n)})
        after_broken = monitors.broken_pairs(
            world, {n: s for n, s in a.refs.items() if oracle.is_dest(n)})
        if before_ok and after_broken:
            probs.append(('created-branch-breaks-inclusion',
                          '%s created; %s' % (arg, after_broken)))
        cp = cascade_problems(a.refs, a.tags)
        if cp and not cascade_problems(b.refs, b.tags):
            probs.append(('created-branch-breaks-cascade-rules',
                          '%s created: %s' % (arg, cp)))
        p = oracle.parse_dest(arg)
        if p[0] == 'dev' and qb:
            devs = [oracle.parse_dest(n) for n in b.refs
                    if n.startswith('development/') and oracle.is_dest(n)]
            newest = max((d[1], float('inf') if d[2] is None else d[2])
                         for d in devs)
            mine = (p[1], float('inf') if p[2] is None else p[2])
            if mine < newest:
                probs.append((
                    'older-development-branch-created-with-queued-prs',
                    '%s created while PRs %s are queued' % (arg, qb)))
        ver = oracle.version_of(arg)
        archive = ver + ('.archived_hotfix_branch'
                         if arg.startswith('hotfix/') else '')
        if archive in b.tags:
            probs.append(('archived-version-re-created',
                          '%s created although tag %s exists' % (arg,
                                                                 archive)))
        other = refs_changed - {arg}
        if [n for n in other if not n.startswith('q/')]:
            probs.append(('create-branch-changes-other-refs',
                          '%s' % sorted(other)))
    if kind == 'delete_branch' and arg in b.refs and arg not in a.refs:
        acc.count('c20_delete_success')
        ver = oracle.version_of(arg)
        qv = [n for n in b.refs if n.startswith('q/w/') and
              n.split('/')[3].startswith(ver) and
              (n.split('/')[3] == ver or arg.startswith('hotfix/'))]
        if qv:
            probs.append(('branch-deleted-with-queued-prs',
                          '%s deleted while %s exist' % (arg, qv)))
        if arg.startswith('development/'):
            live = [n for n in b.refs
                    if n.startswith('stabilization/%s.' % ver)]
            if live:
                probs.append(('development-branch-deleted-with-live-'
                              'stabilization', '%s deleted, %s alive'
                              % (arg, live)))
        # a queue whose destination no longer exists is ill-formed (every
        # later queue evaluation trips over it)
        left = [n for n in a.refs if n.startswith('q/') and
                not n.startswith('q/w/') and
                (n == 'q/' + ver or (arg.startswith('hotfix/') and
                                     n.startswith('q/%s.' % ver)))]
        if left:
            probs.append(('branch-deleted-but-its-queue-stays',
                          '%s deleted, %s still on the remote' % (arg,
                                                                  left)))
        tag = ver + ('.archived_hotfix_branch'
                     if arg.startswith('hotfix/') else '')
        tsha = world.rev('refs/tags/%s^{commit}' % tag)
        if tsha != b.refs[arg]:
            probs.append(('branch-deleted-without-archive-tag',
                          '%s (%s) deleted; tag %s -> %s' % (
                              arg, b.refs[arg][:10], tag, tsha)))
        other = refs_changed - {arg}
        if [n for n in other if not n.startswith('q/')]:
            probs.append(('delete-branch-changes-other-refs',
                          '%s' % sorted(other)))
    if kind in ('rebuild_queues', 'delete_queues'):
        foreign = [n for n in refs_changed if not n.startswith('q/')]
        if foreign or tags_changed:
            probs.append(('queue-job-changes-non-queue-refs',
                          '%s changed %s %s' % (kind, foreign,
                                                sorted(tags_changed))))
        if st == 'JobSuccess' and [n for n in a.refs
                                   if n.startswith('q/')] and \
                world.queue_mode != 'noqueue':
            probs.append(('queue-job-leaves-queue-branches',
                          '%s left %s' % (kind, [n for n in a.refs
                                                 if n.startswith('q/')])))
    if kind == 'rebuild_queues' and world.queue_mode != 'noqueue':
        acc.count('c20_rebuilds_checked')
        want = [i for i in queue_order if i in qb]
        got = [k[1] for k in rec['pending'] if k[0] == 'pr']
        # hotfix queues are independent of the main queue: the order only
        # matters within each queue
        hot = {}
        for n in b.refs:
            if n.startswith('q/w/') and n.split('/')[3].count('.') == 3:
                hot[int(n.split('/')[2])] = n.split('/')[3].rsplit('.', 1)[0]

        def per_queue(ids):
            out = {}
            for i in ids:
                out.setdefault(hot.get(i, 'main'), []).append(i)
            return out
        if qb and (st != 'JobSuccess' or sorted(got) != sorted(want) or
                   per_queue(got) != per_queue(want)):
            probs.append((
                'rebuild-does-not-resubmit-queued-prs-in-order',
                'queued PRs in queue order %s; job -> %s (%s), pending PR '
                'jobs %s' % (want, st, (rec['details'] or '')[:80], got)))
    for mech, desc in probs:
        acc.violation(mech, desc, wit)
    if not probs and len(acc.samples) < 6 and st != 'NothingToDo':
        acc.sample({'config': world.config(), 'request': [kind, arg, kw],
                    'class': cls, 'queued_prs': qb, 'status': st,
                    'refs_changed': sorted(refs_changed),
                    'tags_changed': sorted(tags_changed)})


def request_class(kind, arg, kw, snap):
    if kind == 'create_branch':
        p = oracle.parse_dest(arg)
        if arg in snap.refs:
            c = 'existing'
        elif oracle.version_of(arg) in snap.tags:
            c = 'archived'
        elif p[0] == 'dev':
            devs = sorted((oracle.parse_dest(n)[1],
                           oracle.parse_dest(n)[2] or 0)
                          for n in snap.refs
                          if n.startswith('development/') and
                          oracle.is_dest(n))
            me = (p[1], p[2] or 0)
            c = 'dev-older' if devs and me < devs[0] else \
                'dev-newer' if not devs or me > devs[-1] else 'dev-between'
        elif p[0] == 'stab':
            c = 'stab-with-dev' if 'development/%d.%d' % (p[1], p[2]) \
                in snap.refs else 'stab-without-dev'
        else:
            c = 'hotfix-tagged' if any(
                t.startswith(oracle.version_of(arg)) for t in snap.tags) \
                else 'hotfix-untagged'
        return c + ('+from' if kw.get('branch_from') else '')
    if kind == 'delete_branch':
        return oracle.parse_dest(arg)[0] if arg in snap.refs else 'absent'
    return 'queues'


def try_in_child(world, req):
    def child():
        kw = dict(req[2])
        if kw.pop('server_refuses_deletion', False):
            world.reject_refs(['refs/heads/' + req[1]])
        rec = world.run(req[0], req[1], record=False, **kw)
        world.reject_refs(None)
        out = {'status': rec['status'], 'details': rec['details'],
               'pending': rec['pending'],
               'before': rec['before'].digest(),
               'after': rec['after'].digest(),
               'tagsha': None, 'broken_before': None}
        # the checks need git access to the child's repository: do them here
        from vf.common.acc import Acc
        acc = Acc()
        check_admin(world, req, rec, acc, world._queue_order)
        d = acc.dump()
        return {'acc': d}
    return fork_try(world, child)


def run_shard(spec, acc):
    runner.quiet()
    rng = random.Random('c20-%s-%s' % (spec['seed'], spec['shard']))
    nstates = 2 if spec['tier'] == 'quick' else 30
    layouts = ['d2', 's1d2', 'h1d2', 'd1M1d2', 's2d2', 'h1s1d2', 'd3']
    for i in range(nstates):
        layout = layouts[(spec['shard'] + i) % len(layouts)]
        mode = ['queue', 'queue', 'skipqueue', 'noqueue'][
            (spec['shard'] // 2 + i) % 4]
        world = None
        try:
            world = World(layout=layout, queue_mode=mode,
                          seed=rng.getrandbits(30),
                          settings={'always_create_integration_pull_'
                                    'requests': rng.random() < 0.4})
            world._queue_order = []

            def on_job(rec, world=world):
                acc.count('jobs')
                for n in sorted(rec['after'].refs):
                    if n.startswith('q/w/'):
                        pid = int(n.split('/')[2])
                        if pid not in world._queue_order:
                            world._queue_order.append(pid)
                world._queue_order[:] = [
                    p for p in world._queue_order
                    if p in queued_ids(rec['after'].refs)]
            g = gen.Gen(world, rng, gen.profile(
                p_green=0.9, p_forward=0.5, p_conflict=0.05,
                w={'admin': 0, 'decline': 0.3, 'commit_event': 2}), on_job)
            # reach a state with 0-3 queued PRs
            nq = rng.choice([0, 1, 2, 3])
            # opened in one order, queued in another: the queue order is
            # not the order of the pull request ids
            opened = [g.new_pr(rng.choice(g.dests()), evaluate=False)
                      for _ in range(nq)]
            rng.shuffle(opened)
            if [p['id'] for p in opened] != sorted(p['id'] for p in opened):
                acc.count('c20_states_queued_out_of_id_order')
            for pr in opened:
                for _ in range(3):
                    rec = g.run('pr', pr['id'])
                    if rec['status'] == 'Queued':
                        break
                    for t in g.interesting_tips(pr):
                        if not t.startswith('tip:q/'):
                            world.do('set_status', ref=t,
                                     state='SUCCESSFUL')
            if nq and rng.random() < 0.45:
                # merge what is queued: the q/<version> branches stay behind,
                # empty (then maybe queue one more PR)
                heads = world.refs()[0]
                qs = [n for n in sorted(heads) if n.startswith('q/')]
                for n in qs:
                    world.do('set_status', ref='tip:' + n,
                             state='SUCCESSFUL')
                plain = [n for n in qs if not n.startswith('q/w/')]
                if plain:
                    g.run('commit', 'tip:' + plain[-1])
                if rng.random() < 0.4:
                    pr = g.new_pr(rng.choice(g.dests()))
                    g.queue_pr(pr)
            if rng.random() < 0.4:
                # an archived branch: delete one destination for real
                d = g.dests()
                rec = g.run('delete_branch', rng.choice(d))
            reqs = request_catalogue(world, rng)
            for req in reqs:
                res = try_in_child(world, req)
                if 'inconclusive' in res:
                    acc.count('c20_children_inconclusive')
                    acc.notes.append('c20 child: %s'
                                     % res['inconclusive'][:200])
                    continue
                acc.merge(res['acc'])
            # apply one for real and go on
            req = rng.choice([r for r in reqs
                              if 'server_refuses_deletion' not in r[2]])
            rec = world.run(req[0], req[1], **req[2])
            check_admin(world, req, rec, acc, world._queue_order, real=True)
            for r in world.drain():
                on_job(r)
            acc.count('states_explored')
        except Exception as err:
            acc.count('harness_errors')
            acc.notes.append('%s: %s' % (type(err).__name__, str(err)[:300]))
        finally:
            if world is not None:
                world.close()


def finalize(acc, tier, seed):
    if acc.counters.get('harness_errors', 0) > 4:
        acc.inconc('%d harness errors' % acc.counters['harness_errors'])


def replay(witness, acc):
    runner.quiet()
    cfg = witness['config']
    world = World(layout=cfg['layout'], queue_mode=cfg['queue_mode'],
                  seed=cfg.get('seed', 0), settings=cfg.get('settings'))
    try:
        order = []
        for step in witness['history']:
            out = world.apply(step)
            world.drain()
            for n in sorted(world.refs()[0]):
                if n.startswith('q/w/'):
                    pid = int(n.split('/')[2])
                    if pid not in order:
                        order.append(pid)
        order = [p for p in order if p in queued_ids(world.refs()[0])]
        req = witness['request']
        rec = world.run(req[0], req[1], **req[2])
        check_admin(world, tuple(req), rec, acc, order)
    finally:
        world.close()
