"""C05 - a queue evaluation merges the longest all-green prefix of the queue.

The real BranchCascade / QueueCollection / QueueBranch / QueueIntegrationBranch
(and, on a rotating part of the cells, the real queueing.merge_queues) run on
FakeGit graphs laid out the way add_to_queue lays them out; the answer is
compared with a predicate written from the statement (oracle(), below).
"""
import copy
import itertools
import random

ID = 'C05'
LEVEL = 'exploration'
EXHAUSTIVE_MEANS_ALL = False      # the stated space (~1e10 cells) is sliced
MIN_NONTRIVIAL = 5000
REQUIRED_COUNTERS = {
    'c05w_queue_evaluations': 20,
    'c05w_nonempty_selection_agrees': 5,
    'compared_selection': 5000,
    'compared_destinations': 5000,
    'expected_nothing': 100,
    'expected_partial_prefix': 100,
    'expected_whole_queue': 100,
    'force_merge_cells': 100,
    'hotfix_queue_cells': 100,
    'full_path_cells': 100,
    'graphs_validated': 100,
}
SHARD_TIMEOUT = {'quick': 900, 'thorough': 3600}

STATUSES = ('SUCCESSFUL', 'FAILED', 'INPROGRESS', 'NOTSTARTED')
NOT_GREEN = STATUSES[1:]
BUILD_KEY = 'pre-merge'
BLOCK = 4096
FULL_PATH_EVERY = 64

# slices ---------------------------------------------------------------------
# (queue length) -> (four-valued up to this many queue commits,
#                    two-valued (green / rotating not-green) up to this many)
SLICES = {
    'quick': {1: (99, 0), 2: (5, 99), 3: (0, 99), 4: (0, 7)},
    'thorough': {1: (99, 0), 2: (99, 0), 3: (5, 99), 4: (0, 10)},
}
SAMPLE_GRAPHS = {'quick': 1600, 'thorough': 6400}      # x 16 status tables
SAMPLE_TABLES = 16

RULE = (
    'layouts = 1..3 development branches x every subset of them having a '
    'stabilization branch x no/one hotfix branch (28; the hotfix branch is '
    'older than every development branch or shares the minor of the oldest '
    'one, rotating by graph) + 3 layouts with BOTH hotfix branches (two '
    'hotfix queues at once) x queues of 1..4 pull requests with EVERY '
    'destination tuple; each graph is built in memory the way add_to_queue '
    'builds it (pull-request ids permuted and pre-existing empty q/ branches '
    'present or not, both rotating by graph index + VERIF_SEED). Build '
    'statuses: quick tier = all 4^c tables for 1 PR and for 2 PRs with c<=5 '
    'queue commits, all 2^c green/not-green tables (the not-green value '
    'rotating over FAILED/INPROGRESS/NOTSTARTED by position and table) for '
    'every 2- and 3-PR queue and for 4-PR queues with c<=7 (sized for 60 s '
    'on 16 cores), plus a seeded sample (1600 graphs x 16 four-valued '
    'tables) of 4-PR queues with c>=8; '
    'thorough tier = all 4^c for 1 and 2 PRs and for 3 PRs with c<=5, all '
    '2^c for every 3-PR queue and 4-PR queues with c<=10, plus a seeded '
    'sample (6400 graphs x 16 tables) of 4-PR queues with c>=11; every graph '
    'is also evaluated under force merge. Enumerated cells are distinct by '
    'construction, sampled cells are de-duplicated by (graph, table); '
    'non-trivial = at least one queue commit is not SUCCESSFUL (or force '
    'merge with a non-green commit)')
ASSUMPTIONS = [
    'git is FakeGit (vf/func/c05_fakegit.py): the real Repository class with '
    'cmd() interpreting branch --list / tag / checkout / rev-parse / '
    'merge-base --is-ancestor / merge --no-edit / branch -D over an in-memory '
    'DAG; any other command line makes the run inconclusive; the git host is '
    'a status table',
    'order of entry, destinations and the queue commit of every (pull '
    'request, version) are known to the oracle because the harness built the '
    'graph; "hotfix queue independent" is read as: the pull requests of one '
    'hotfix branch form a queue of their own, evaluated apart from the '
    'development/stabilization queue',
    'build()+validate() are run once per graph and every status table is '
    'evaluated on a shallow copy of that validated collection (checked: '
    'build/validate never read a build status); every 64th cell, the first '
    'cell of every graph and every replay go through the whole path '
    '(BranchCascade.build, QueueCollection.build, validate, mergeable_prs, '
    'mergeable_queues, failed_prs, queued_prs, real merge_queues) and the '
    'branch movements are read back from the repository',
    'on the cells that do not go through the whole path, git.Branch is '
    'given a __deepcopy__ that produces what copy.deepcopy produces by '
    'default (new instance, memoised, attributes deep-copied) without the '
    'generic dispatch - _process deep-copies every branch object once per '
    'merge path, 85% of a cell; the whole-path cells use the stock deepcopy '
    'and are compared with the same oracle',
    'the order of the list returned by mergeable_prs, and queued_prs / '
    'failed_prs, are outside the statement: recorded, not asserted',
    'the system-level replay on a real repository described in DESIGN.md is '
    'not part of this module',
]


# ---------------------------------------------------------------------------
# enumeration
# ---------------------------------------------------------------------------

def layouts():
    out = []
    for ndev in (1, 2, 3):
        for mask in range(1 << ndev):
            for hf in (0, 1):
                out.append((ndev, mask, hf))
    # two hotfix branches at once: two hotfix queues beside the main one
    out += [(1, 0, 3), (2, 0, 3), (2, 1, 3)]
    return out


def _shape(layout):
    from vf.func.c05_fakegit import layout_branches, targets_of
    br, _ = layout_branches(layout)
    return len(br), [len(targets_of(br, i)) for i in range(len(br))]


def graphs(tier):
    """Deterministic list of (m, c, nbranches, layout, dests), smallest
    first, so that the first witness a shard meets is a smallest one."""
    out = []
    for layout in layouts():
        nb, cd = _shape(layout)
        for m in (1, 2, 3, 4):
            for dests in itertools.product(range(nb), repeat=m):
                c = sum(cd[d] for d in dests)
                out.append((m, c, nb, layout, dests))
    out.sort()
    return out


def units(tier):
    """(graph index, graph, mode, start, stop) work units."""
    sl = SLICES[tier]
    out = []
    for gi, g in enumerate(graphs(tier)):
        m, c = g[0], g[1]
        four, two = sl[m]
        if c <= four:
            mode, total = 4, 4 ** c
        elif c <= two:
            mode, total = 2, 2 ** c
        else:
            continue
        for start in range(0, total, BLOCK):
            out.append((gi, g, mode, start, min(total, start + BLOCK)))
    return out


def variation(gi, seed, m, layout):
    """Rotating dimensions that are outside the quantifier: pull-request
    ids (entry order is not id order), left-over empty q/ branches, hotfix
    placement."""
    var = gi + seed
    perms = list(itertools.permutations(range(m)))
    perm = perms[var % len(perms)]
    base = (3, 11, 7, 25)[:m] if (var // 24) % 2 else tuple(range(1, m + 1))
    pr_ids = [sorted(base)[p] for p in perm]
    stale = bool((var // 2) % 2)
    ndev, mask, hf = layout
    if hf == 1:
        hf = 1 + (var // 4) % 2
    return (ndev, mask, hf), pr_ids, stale


def table(mode, a, c, rot):
    if mode == 4:
        return [STATUSES[(a >> (2 * j)) & 3] for j in range(c)]
    return ['SUCCESSFUL' if (a >> j) & 1 else NOT_GREEN[(j + a + rot) % 3]
            for j in range(c)]


def plan(tier, seed):
    return [{} for _ in range(16)]


# ---------------------------------------------------------------------------
# the oracle: the statement, nothing else
# ---------------------------------------------------------------------------

def oracle(kinds, targets, dests, status, force):
    """kinds[b]: 'development' | 'stabilization' | 'hotfix' for destination
    branch b; targets[pos]: the branches pull request number pos (in order of
    entry) lands on; status[(pos, b)]: build status of its queue commit on b.
    Returns (selected positions, {branch: position whose queue commit the
    branch moves to}, per-queue (positions, k))."""
    queues = {}
    for pos, d in enumerate(dests):
        qid = ('hotfix', d) if kinds[d] == 'hotfix' else ('main',)
        queues.setdefault(qid, []).append(pos)
    selected, moves, detail = set(), {}, {}
    for qid, members in queues.items():
        best = 0
        for k in range(len(members), 0, -1):
            newest = {}
            for pos in members[:k]:
                for b in targets[pos]:
                    newest[b] = pos
            if force or all(status[(pos, b)] == 'SUCCESSFUL'
                            for b, pos in newest.items()):
                best = k
                break
        detail[qid] = (members, best)
        newest = {}
        for pos in members[:best]:
            selected.add(pos)
            for b in targets[pos]:
                newest[b] = pos
        moves.update(newest)
    return selected, moves, detail


# ---------------------------------------------------------------------------
# running the real code
# ---------------------------------------------------------------------------

class Env:
    def __init__(self):
        import logging
        logging.disable(logging.CRITICAL)
        from vf.func import fast
        fast.install()
        from vf.func import c05_fakegit as fg
        from bert_e.workflow.gitwaterflow import branches as B
        from bert_e.workflow.gitwaterflow import queueing as Q
        from bert_e import exceptions as E
        self.fg, self.B, self.Q, self.E = fg, B, Q, E


_env = [None]


def env():
    if _env[0] is None:
        _env[0] = Env()
    return _env[0]


class Graph:
    """A world + the real collection built and validated on it."""

    def __init__(self, layout, dests, pr_ids, stale, acc):
        e = env()
        self.layout, self.dests = tuple(layout), tuple(dests)
        self.pr_ids, self.stale = tuple(pr_ids), bool(stale)
        self.w = w = e.fg.World(layout, dests, pr_ids, stale)
        self.host = e.fg.StatusHost()
        self.kinds = [b[0] for b in w.branches]
        self.targets = [e.fg.targets_of(w.branches, d) for d in dests]
        self.commits = w.commits
        shas = [w.queue_commit[k] for k in self.commits]
        if len(set(shas)) != len(shas):
            acc.inconc('harness: two queue commits coincide')
        self.pos_of_id = {pr: pos for pos, pr in enumerate(pr_ids)}
        self.name_of = {i: b[1] for i, b in enumerate(w.branches)}
        self.index_of = {b[1]: i for i, b in enumerate(w.branches)}
        self.template = None
        self.validate_error = None
        self.fast_ok = False
        try:
            cascade, qc = self.build(False)
            self.paths = [[br.name for br in p] for p in qc.merge_paths]
            if self.host.lookups == 0 and qc._mergeable_queues is None:
                self.fast_ok = True
            else:
                acc.count('status_read_during_build_or_validate')
            self.template = qc
            acc.count('graphs_validated')
        except e.E.IncoherentQueues as err:
            self.validate_error = self._codes(err)
        self.w.git.restore(self.w.snap)

    @staticmethod
    def _codes(err):
        # IncoherentQueues lists " - [Qxxx] message" lines
        codes = sorted(set(tok[1:5] for tok in str(err).split()
                           if len(tok) == 6 and tok[0] == '[' and tok[1] == 'Q'
                           and tok[5] == ']' and tok[2:5].isdigit()))
        return '+'.join(codes) or type(err).__name__

    def build(self, force):
        e = env()
        cascade = e.B.BranchCascade()
        cascade.build(self.w.git)
        qc = e.B.QueueCollection(self.host, BUILD_KEY,
                                 cascade.get_merge_paths(), force)
        qc.build(self.w.git)
        qc.validate()
        return cascade, qc

    def set_table(self, tab):
        self.status = dict(zip(self.commits, tab))
        self.host.statuses = {self.w.queue_commit[k]: s
                              for k, s in self.status.items()}

    def read(self, qc):
        """(selected positions, list as returned, {branch index: sha})."""
        e = env()
        ids = list(qc.mergeable_prs)
        moves = {}
        for version, entry in qc.mergeable_queues.items():
            qints = entry[e.B.QueueIntegrationBranch]
            if qints:
                dst = entry[e.B.QueueBranch].dst_branch.name
                moves[self.index_of[dst]] = self.w.git._resolve(qints[0].name)
        return ids, moves

    def fast(self, force):
        e = env()
        qc = copy.copy(self.template)
        qc.force_merge = force
        e.fg.fast_deepcopy(True)
        try:
            return self.read(qc)
        finally:
            e.fg.fast_deepcopy(False)

    def full(self, force):
        """Whole path, movements read back from the repository after the real
        merge_queues."""
        e = env()
        g = self.w.git
        g.restore(self.w.snap)
        try:
            cascade, qc = self.build(force)
            ids, moves = self.read(qc)
            extra = {'queued_prs': list(qc.queued_prs),
                     'failed_prs': list(qc.failed_prs)}
            e.Q.merge_queues(qc.mergeable_queues)
            moved = {}
            for i, name in self.name_of.items():
                if g.local.get(name) != self.w.dst_tip[i]:
                    moved[i] = g.local.get(name)
            extra['moved'] = moved
        finally:
            g.restore(self.w.snap)
        return ids, moves, extra


def harness_paths(kinds):
    """Merge paths as the documentation describes the cascade: the
    development branches, and each stabilization branch followed by its
    development branch and the later ones."""
    devs = [i for i, k in enumerate(kinds) if k == 'development']
    out = [set(devs)]
    for i, k in enumerate(kinds):
        if k == 'stabilization':
            out.append({i} | {d for d in devs if d > i})
    return out


def per_path_prefixes(g, members):
    """Diagnosis only (never used to decide a verdict): for each merge path,
    the longest prefix of the queue whose tips are green on the versions of
    THAT path alone."""
    out = []
    for path in harness_paths(g.kinds):
        best = 0
        for k in range(len(members), 0, -1):
            newest = {}
            for pos in members[:k]:
                for b in g.targets[pos]:
                    if b in path:
                        newest[b] = pos
            if all(g.status[(pos, b)] == 'SUCCESSFUL'
                   for b, pos in newest.items()):
                best = k
                break
        out.append(best)
    return out


def classify(g, force, exp_sel, exp_moves, detail, got_sel, got_moves):
    """Stable key for the kind of disagreement."""
    if force:
        return 'force-merge-does-not-select-whole-queue'
    kinds = g.kinds
    parts = []
    for qid, (members, k) in sorted(detail.items()):
        mine = [p for p in members if p in got_sel]
        where = 'hotfix-queue' if qid[0] == 'hotfix' else 'main-queue'
        if mine != members[:len(mine)]:
            parts.append('%s-selection-is-not-a-prefix' % where)
            continue
        if len(mine) == k:
            continue
        if len(mine) < k:
            parts.append('%s-stops-short-of-green-prefix' % where)
            continue
        # a prefix longer than the statement allows: some destination lands
        # on a commit that is not SUCCESSFUL
        if qid[0] == 'main':
            tv = set()
            for p in members:
                tv.update(g.targets[p])
            covered = any(tv <= path for path in harness_paths(kinds))
            nstab = sum(1 for b in tv if kinds[b] == 'stabilization')
            if not covered and len(mine) == min(per_path_prefixes(g, members)):
                parts.append(
                    'per-merge-path-minimum-selects-non-green-tip/%s' % (
                        'one-stabilization-queue-above-the-oldest-queued-'
                        'version' if nstab == 1 else
                        'several-stabilization-queues'))
                continue
        parts.append('%s-selects-prefix-with-non-green-tip' % where)
    if parts:
        return '+'.join(parts)
    if set(got_sel) != exp_sel:
        return 'selection-contains-unknown-pull-request'
    return 'destination-moved-to-wrong-commit'


def describe(g, force, tab, exp_sel, exp_moves, got_ids, got_moves):
    w = g.w
    inv = {sha: w.qint_name[k] for k, sha in w.queue_commit.items()}
    return ('branches=%s; queue in order of entry=%s; statuses=%s; %sreal '
            'code selects %s and moves %s; statement selects %s and moves %s'
            % ([b[1] for b in w.branches],
               ['#%d->%s' % (pr, w.branches[d][1])
                for pr, d in zip(g.pr_ids, g.dests)],
               {w.qint_name[k]: s for k, s in zip(g.commits, tab)},
               'FORCE MERGE; ' if force else '',
               got_ids,
               {g.name_of[b]: inv.get(s, s) for b, s in sorted(
                   got_moves.items())},
               [g.pr_ids[p] for p in sorted(exp_sel)],
               {g.name_of[b]: w.qint_name[(p, b)] for b, p in sorted(
                   exp_moves.items())}))


def witness(g, tab, force):
    return {'layout': list(g.layout), 'dests': list(g.dests),
            'pr_ids': list(g.pr_ids), 'stale': g.stale,
            'statuses': list(tab), 'force': bool(force),
            'size': [len(g.dests), len(g.commits), len(g.kinds),
                     sum(1 for s in tab if s != 'SUCCESSFUL')]}


def run_cell(g, tab, force, acc, full=False, sampled=False, label=None):
    """One evaluation of the real code against the oracle."""
    e = env()
    acc.evals += 1
    g.set_table(tab)
    exp_sel, exp_moves_pos, detail = oracle(g.kinds, g.targets, g.dests,
                                            g.status, force)
    exp_moves = {b: g.w.queue_commit[(p, b)]
                 for b, p in exp_moves_pos.items()}
    nongreen = any(s != 'SUCCESSFUL' for s in tab)
    if nongreen:
        if sampled:
            acc.nontrivial([g.layout, g.dests, g.pr_ids, g.stale, tab, force])
        else:
            acc.nontrivial_disjoint += 1
    if force:
        acc.count('force_merge_cells')
    else:
        n = len(g.dests)
        acc.count('expected_nothing' if not exp_sel else
                  'expected_whole_queue' if len(exp_sel) == n else
                  'expected_partial_prefix')
        if len(detail) > 1 or ('main',) not in detail:
            acc.count('hotfix_queue_cells')
            ks = [k for (_, k) in detail.values()]
            if len(detail) > 1 and min(ks) == 0 and max(ks) > 0:
                acc.count('hotfix_and_main_queue_decided_differently')

    unknown0 = len(g.w.git.unknown)
    extra = None
    try:
        if g.template is None:
            # validate() refused the graph: the evaluation job stops there,
            # nothing is selected and nothing moves
            got_ids, got_moves = [], {}
            rejected = True
        else:
            rejected = False
            if full or not g.fast_ok:
                got_ids, got_moves, extra = g.full(force)
                acc.count('full_path_cells')
            else:
                got_ids, got_moves = g.fast(force)
    except e.fg.UnknownGitCommand as err:
        acc.inconc('FakeGit met a command it does not interpret: %s'
                   % str(err)[:120])
        return
    except Exception as err:
        acc.violation('queue-evaluation-raises-%s' % type(err).__name__,
                      'the real code raised %s: %s; %s' % (
                          type(err).__name__, str(err)[:200],
                          describe(g, force, tab, exp_sel, exp_moves_pos,
                                   ['<exception>'], {})),
                      witness(g, tab, force))
        return
    if len(g.w.git.unknown) != unknown0:
        acc.inconc('FakeGit met a command it does not interpret (swallowed '
                   'by the code under test): %s' % g.w.git.unknown[-1][:120])
        return

    got_sel = [g.pos_of_id.get(i, ('unknown', i)) for i in got_ids]
    acc.count('compared_selection')
    acc.count('compared_destinations')
    bad = None
    if set(got_sel) != exp_sel or len(got_sel) != len(set(got_sel)):
        bad = 'selection'
    elif got_moves != exp_moves:
        bad = 'destinations'
    if extra is not None and bad is None:
        acc.count('merge_queues_run')
        if extra['moved'] != exp_moves:
            bad = 'merge_queues'
            got_moves = extra['moved']
        acc.seen('queued_prs_is_whole_queue',
                 sorted(extra['queued_prs']) == sorted(g.pr_ids))
        acc.seen('failed_prs_subset_of_queue',
                 set(extra['failed_prs']) <= set(g.pr_ids))
    if bad is None and [p for p in got_sel] != sorted(got_sel):
        # hotfix pull requests are listed first whatever their entry date
        acc.count('dont_care_list_order_differs_from_entry_order')

    if bad:
        if rejected:
            mech = 'validate-rejects-well-formed-queue-%s' % g.validate_error
        else:
            mech = classify(g, force, exp_sel, exp_moves_pos, detail,
                            [p for p in got_sel if isinstance(p, int)],
                            got_moves)
            if bad == 'merge_queues':
                mech = 'merge_queues-' + mech
        desc = describe(g, force, tab, exp_sel, exp_moves_pos, got_ids,
                        got_moves)
        if ('main',) in detail and not force:
            members = detail[('main',)][0]
            desc += ('; longest prefix that is green on the versions of one '
                     'merge path alone: %s' % [
                         (sorted(g.name_of[b] for b in path), k)
                         for path, k in zip(harness_paths(g.kinds),
                                            per_path_prefixes(g, members))])
        acc.violation(mech, desc, witness(g, tab, force))
    elif rejected:
        acc.count('validate_rejected_but_nothing_expected')
    elif label and (acc.evals % 9973 == 2 or (
            not force and 0 < len(exp_sel) < len(g.dests) > 2
            and acc.evals % 997 == 3 and len(acc.samples) < 4)):
        acc.sample({
            'branches': [b[1] for b in g.w.branches],
            'queue (order of entry)': [
                '#%d -> %s' % (pr, g.w.branches[d][1])
                for pr, d in zip(g.pr_ids, g.dests)],
            'statuses': {g.w.qint_name[k]: s
                         for k, s in zip(g.commits, tab)},
            'force_merge': bool(force),
            'mergeable_prs': got_ids,
            'destinations moved to': {
                g.name_of[b]: g.w.qint_name[(p, b)]
                for b, p in sorted(exp_moves_pos.items())},
            'path': 'full (incl. merge_queues)' if extra else 'fast',
            'sub-space': label})


def run_graph(g, mode, start, stop, rot, acc, label):
    c = len(g.commits)
    for a in range(start, stop):
        tab = table(mode, a, c, rot)
        run_cell(g, tab, False, acc,
                 full=(a == start or (a + rot) % FULL_PATH_EVERY == 0),
                 label=label)
    if start == 0:
        # force merge: statuses must not matter
        for a in (0, (rot * 2654435761) % (4 ** c)):
            run_cell(g, table(4, a, c, rot) if a else ['FAILED'] * c, True,
                     acc, full=(a == 0), label=label + ' (force merge)')
        if g.template is not None:
            acc.seen('merge_paths', g.paths)


def run_shard(spec, acc):
    tier, shard, n, seed = (spec['tier'], spec['shard'], spec['nshards'],
                            spec['seed'])
    # system-level companion: queue evaluations on real repositories
    from vf.world import c05_world
    c05_world.run(spec, acc, 3 if tier == 'quick' else 24)
    sl = SLICES[tier]
    last = (None, None)
    for j, (gi, gr, mode, start, stop) in enumerate(units(tier)):
        if j % n != shard:
            continue
        m, c, nb, layout, dests = gr
        if last[0] != gi:
            lay, pr_ids, stale = variation(gi, seed, m, layout)
            last = (gi, Graph(lay, dests, pr_ids, stale, acc))
        label = '%d PR(s), %s' % (m, 'all 4^c status tables' if mode == 4
                                  else 'all 2^c green/not-green tables')
        run_graph(last[1], mode, start, stop, gi + seed, acc, label)
    for m, (four, two) in sorted(sl.items()):
        if four:
            acc.exhaustive['28 layouts x every destination tuple of %d PR(s) '
                           'with c<=%s queue commits x all 4^c status tables'
                           % (m, four if four < 99 else 'any')] = True
        if two:
            acc.exhaustive['28 layouts x every destination tuple of %d PR(s) '
                           'with c<=%s queue commits x all 2^c green/'
                           'not-green tables' % (
                               m, two if two < 99 else 'any')] = True

    # seeded sample of the long queues that are not enumerated
    rng = random.Random(seed * 7919 + shard)
    lays = layouts()
    floor = sl[4][1] + 1
    todo = SAMPLE_GRAPHS[tier] // n
    shapes = {lay: _shape(lay) for lay in lays}
    while todo > 0:
        layout = rng.choice(lays)
        nb, cd = shapes[layout]
        dests = tuple(rng.randrange(nb) for _ in range(4))
        if sum(cd[d] for d in dests) < floor:
            continue
        todo -= 1
        lay, pr_ids, stale = variation(rng.randrange(1 << 20), seed, 4,
                                       layout)
        g = Graph(lay, dests, pr_ids, stale, acc)
        c = len(g.commits)
        for t in range(SAMPLE_TABLES):
            if t % 4 == 3:
                # mostly-green tables: long prefixes are otherwise rare
                tab = [STATUSES[rng.randrange(4)] if rng.random() < 0.25
                       else 'SUCCESSFUL' for _ in range(c)]
            else:
                tab = [STATUSES[rng.randrange(4)] for _ in range(c)]
            run_cell(g, tab, False, acc, full=(t == 0), sampled=True,
                     label='4 PRs, c>=%d, seeded sample' % floor)
        acc.count('sampled_graphs')
    acc.exhaustive['4 PRs with c>=%d queue commits (sampled only)'
                   % floor] = False


def finalize(acc, tier, seed):
    # smallest witness of every family first (the driver prints the first ten
    # distinct ones): rank inside the mechanism, then size
    acc.violations.sort(key=lambda v: (v['mechanism'],
                                       v['witness'].get('size', [99]),
                                       v['desc']))
    rank, seen = {}, {}
    for v in acc.violations:
        seen[v['mechanism']] = seen.get(v['mechanism'], -1) + 1
        rank[id(v)] = seen[v['mechanism']]
    acc.violations.sort(key=lambda v: (rank[id(v)], v['mechanism']))
    acc.count('graphs_enumerated', len({u[0] for u in units(tier)}))


def replay(w, acc):
    if w.get('world'):
        from vf.world import c05_world
        return c05_world.replay(w, acc)
    g = Graph(tuple(w['layout']), tuple(w['dests']), list(w['pr_ids']),
              w.get('stale', False), acc)
    tab = list(w['statuses'])
    run_cell(g, tab, w.get('force', False), acc, full=True, label='replay')
    if not acc.violations and g.fast_ok:
        run_cell(g, tab, w.get('force', False), acc, full=False,
                 label='replay')
