"""C06 - the build gate.  F: real check_build_status on a stub job for every
status vector; W: histories with hostile CI on real repositories."""
import itertools
import json

from vf.world import gen, monitors, runner
from vf.world.world import AUTHOR

ID = 'C06'
LEVEL = 'exploration'
RULE = ('F: every vector of {SUCCESSFUL, INPROGRESS, NOTSTARTED, STOPPED, '
        'FAILED} over 1-4 integration branches x bypass source {none, admin '
        'comment, per-author, command line} x build key {"", "pre-merge"} '
        'through the real handle_comments + check_build_status on the real '
        'git.Branch objects of a real four-branch repository (exhaustive, '
        'each cell distinct); W: hostile-CI histories in the three queue '
        'modes; for every job that ends Queued / SuccessMessage the source '
        'tip and every w/ tip (remote after the job; for direct merges the '
        'commits Bert-E asked the host about) must be green in the host '
        'table unless waived by harness knowledge; BuildFailed needs a '
        'FAILED/STOPPED tip; pending builds are answered silently; '
        'non-trivial W case = (layout, mode, outcome, tip statuses)')
ASSUMPTIONS = [
    'F part: real git repository and real Branch objects, stub host '
    '(status table); W part: mock host + real git + real '
    'Bert-E, sampled histories',
    'for a direct merge the integration commits are identified through the '
    'status queries Bert-E made to the host during the job',
]
MIN_NONTRIVIAL = 50
REQUIRED_COUNTERS = {'c06_f_cells': 6000, 'c06_h_cells': 600,
                     'c06_entries_checked': 20,
                     'c06_pushes_during_a_job_before_the_pr_read': 8,
                     'c06_refusals_checked': 20}
SHARD_TIMEOUT = {'quick': 900, 'thorough': 5400}
MONITORS = [monitors.c06_build_gate]
STATES = ('SUCCESSFUL', 'INPROGRESS', 'NOTSTARTED', 'STOPPED', 'FAILED')
LAYOUTS = ['d1', 'd2', 's1d2', 'd1M1d2', 's2d2', 'd3', 'h1d2']


_REAL = {}


def real_repo():
    """One real git repository with four integration-like branches b0..b3
    (one commit each), opened through the real bert_e.lib.git classes: the
    gate may ask for the tips any way it likes (Branch.get_latest_commit,
    git rev-parse, for-each-ref ...)."""
    if _REAL:
        return _REAL
    import atexit
    import os
    import shutil
    import subprocess
    import tempfile
    from vf.common import env
    from bert_e.lib import git as bgit
    d = tempfile.mkdtemp(prefix='vf-c06-', dir=env.scratch_root())
    atexit.register(shutil.rmtree, d, True)
    e = dict(os.environ, GIT_AUTHOR_NAME='h', GIT_AUTHOR_EMAIL='h@x.invalid',
             GIT_COMMITTER_NAME='h', GIT_COMMITTER_EMAIL='h@x.invalid',
             VF_SHIM_OFF='1')

    def git(*a):
        return subprocess.run(['git'] + list(a), cwd=d, env=e, check=True,
                              stdout=subprocess.PIPE, text=True).stdout
    git('init', '-q')
    git('commit', '-q', '--allow-empty', '-m', 'root')
    shas = []
    for i in range(4):
        git('checkout', '-q', '-b', 'b%d' % i)
        git('commit', '-q', '--allow-empty', '-m', 'tip of b%d' % i)
        shas.append(git('rev-parse', 'HEAD').strip())
    repo = bgit.Repository(None)
    shutil.rmtree(repo.tmp_directory, ignore_errors=True)
    repo.tmp_directory = repo.cmd_directory = d
    _REAL.update(repo=repo, shas=shas,
                 branches=[bgit.Branch(repo, 'b%d' % i) for i in range(4)])
    return _REAL


def f_cell(vec, source, key, acc):
    from vf.func import stubs
    from bert_e.workflow import gitwaterflow as gwf
    from bert_e import exceptions as messages
    over = {'build_key': key}
    comments, cmdline = [], []
    if source == 'per_author':
        over['pr_author_options'] = {stubs.AUTHOR: ['bypass_build_status']}
    elif source == 'comment':
        comments = [stubs.StubComment(stubs.LEAD,
                                      '@robot bypass_build_status')]
    elif source == 'cmdline':
        cmdline = ['bypass_build_status']
    settings = stubs.make_settings(**over)
    stubs.set_cmd_line_options(cmdline)
    pr = stubs.StubPR()
    pr.comments = comments
    real = real_repo()
    job = stubs.make_job(settings, pr, git_repo=real['repo'])
    gwf.handle_comments(job)
    branches = real['branches'][:len(vec)]
    for sha, st in zip(real['shas'], vec):
        job.project_repo.statuses[(sha, key)] = st
    try:
        gwf.check_build_status(job, branches)
        got = 'pass'
    except messages.BuildFailed as e:
        got = 'failed-message'
        if not isinstance(e, messages.TemplateException):
            got = 'failed-silent'
    except messages.SilentException as e:
        got = 'silent-wait:' + type(e).__name__
    except messages.TemplateException as e:
        got = 'message:' + type(e).__name__
    except Exception as e:
        if 'Stub' in str(e):
            raise RuntimeError('stub job cannot follow the code under test: '
                               '%s' % e)
        got = 'error:' + type(e).__name__
    waived = source != 'none' or key == ''
    if waived:
        exp = 'pass'
    elif any(s in ('FAILED', 'STOPPED') for s in vec):
        exp = 'failed-message'
    elif any(s in ('NOTSTARTED', 'INPROGRESS') for s in vec):
        exp = 'silent-wait'
    else:
        exp = 'pass'
    acc.evals += 1
    acc.count('c06_f_cells')
    acc.nontrivial_disjoint += 1
    ok = got == exp or (exp == 'silent-wait' and got.startswith(exp))
    if not ok:
        acc.violation('build-gate-function-%s-instead-of-%s' % (
            got.split(':')[0], exp),
            'check_build_status on %r (bypass %s, key %r): %s, expected %s'
            % (vec, source, key, got, exp),
            {'f': True, 'vec': list(vec), 'source': source, 'key': key})
    elif acc.counters['c06_f_cells'] % 997 == 1:
        acc.sample({'vector': list(vec), 'bypass': source, 'key': key,
                    'outcome': got})


def run_h(acc):
    """The gate behind a REAL host class and the REAL webhook routes (scripted
    bitbucket / github HTTP, harness of the C17 check): status events for the
    configured build key and for ANOTHER key reach the server, then the real
    check_build_status decides on 1-2 integration tips.  Only the state of
    the configured key on every tip counts."""
    from vf.func import stubs
    from vf.checks import c17
    from bert_e.workflow import gitwaterflow as gwf
    from bert_e import exceptions as messages
    real = real_repo()
    for host in ('bitbucket', 'github'):
        h = c17.Harness(host)
        key, other = h.keys
        settings = stubs.make_settings(build_key=key)
        stubs.set_cmd_line_options([])

        def hook(sha, k, st):
            h.set_world(sha, k, st)
            route, headers, body = h.webhook_request(sha, k, st)
            h.http.post(route, data=json.dumps(body).encode(),
                        headers=headers)
            h.bert_e.task_queue.queue.clear()
        for n in (1, 2):
            for vec in itertools.product('SFPN', repeat=n):
                for others in itertools.product((None, 'S', 'F'), repeat=n):
                    for own_hook in (False, True):
                        h.reset(1000)
                        shas = real['shas'][:n]
                        for sha, st, ot in zip(shas, vec, others):
                            h.set_world(sha, key, st)
                            if own_hook and st != 'N':
                                hook(sha, key, st)
                            if ot:
                                hook(sha, other, ot)
                        job = stubs.make_job(settings, stubs.StubPR(),
                                             git_repo=real['repo'])
                        gwf.handle_comments(job)
                        job.project_repo = job.bert_e.project_repo = h.repo
                        try:
                            gwf.check_build_status(job,
                                                   real['branches'][:n])
                            got = 'pass'
                        except messages.BuildFailed:
                            got = 'failed-message'
                        except messages.SilentException as e:
                            got = 'silent-wait:' + type(e).__name__
                        if 'F' in vec:
                            exp = 'failed-message'
                        elif 'P' in vec or 'N' in vec:
                            exp = 'silent-wait'
                        else:
                            exp = 'pass'
                        acc.evals += 1
                        acc.count('c06_h_cells')
                        if any(others):
                            acc.count('c06_h_cells_with_another_key_reported')
                        acc.nontrivial_disjoint += 1
                        if not got.startswith(exp):
                            acc.violation(
                                'build-gate-behind-webhooks-%s-instead-of-%s'
                                % (got.split(':')[0], exp),
                                'host=%s: tips with %r under the configured '
                                'key %r, status events %s for key %r%s: '
                                'check_build_status -> %s, expected %s' % (
                                    host, vec, key, list(others), other,
                                    ' and for the configured key'
                                    if own_hook else '', got, exp),
                                {'h': True})
    acc.exhaustive['H: {S,F,P,N}^n n=1..2 x events for another key x own '
                   'events x {bitbucket, github}'] = True


def run_f(acc, shard, nshards):
    from vf.func import fast
    fast.install()
    i = 0
    for n in range(1, 5):
        for vec in itertools.product(STATES, repeat=n):
            for source in ('none', 'comment', 'per_author', 'cmdline'):
                for key in ('', 'pre-merge'):
                    i += 1
                    if i % nshards == shard:
                        f_cell(vec, source, key, acc)
    acc.exhaustive['F: 5^n vectors n=1..4 x 4 bypass sources x 2 keys'] = True


def configs():
    out = []
    for layout in LAYOUTS:
        for qm in ('queue', 'noqueue', 'skipqueue'):
            out.append({'layout': layout, 'queue_mode': qm})
    # a few worlds where the gate is waived / approvals are required too
    out.append({'layout': 'd2', 'queue_mode': 'queue',
                'cmd_line_options': ['bypass_build_status']})
    out.append({'layout': 'd2', 'queue_mode': 'noqueue',
                'settings': {'required_peer_approvals': 1}})
    out.append({'layout': 's1d2', 'queue_mode': 'queue',
                'settings': {'pr_author_options':
                             {'author': ['bypass_build_status']}}})
    return out


def plan(tier, seed):
    return [{} for _ in range(16)]


def run_shard(spec, acc):
    runner.quiet()
    run_f(acc, spec['shard'], spec['nshards'])
    if spec['shard'] == 3:
        run_h(acc)
    prof = gen.profile(p_green=0.6, p_forward=0.65,
                       w={'status': 10, 'stale_status': 3, 'push_commit': 5,
                          'commit_event': 8, 'admin': 0.3})
    openers = [None, gen.OPENERS['two_prs_same_base'],
               gen.OPENERS['dest_moves_while_open'], None,
               gen.OPENERS['manual_on_middle_w']]
    if spec['tier'] == 'quick':
        n_hist, jobs, cap = 8, 12, 600
    else:
        n_hist, jobs, cap = 100, 22, 4800
    # the author pushes while the deciding job runs, before the robot reads
    # the pull requests back from the host (integration pull requests on,
    # as by default): the host has told Bert-E about a never-built tip
    directed = [({'layout': layout, 'queue_mode': qm, 'settings': {
        'always_create_integration_pull_requests': True}},
        gen.OPENERS['source_pushed_during_job'])
        for layout in ('d1', 'd2', 's1d2', 'd3')
        for qm in ('queue', 'noqueue', 'skipqueue')]
    # a waiver given on one pull request must not reach another one of the
    # same author (listed in pr_author_options for something else)
    directed += [({'layout': layout, 'queue_mode': qm, 'settings': {
        'pr_author_options': {AUTHOR: [other]}}},
        gen.OPENERS['bypass_on_other_pr'])
        for layout in ('d1', 'd2') for qm in ('queue', 'noqueue')
        for other in ('bypass_jira_check', 'bypass_peer_approval')]
    runner.run_histories(spec, acc, configs(), prof, MONITORS, n_hist, jobs,
                         openers=openers, soft_cap_s=cap, directed=directed)


def finalize(acc, tier, seed):
    runner.harness_health(acc)


def replay(witness, acc):
    if witness.get('h'):
        runner.quiet()
        run_h(acc)
    elif witness.get('f'):
        runner.quiet()
        f_cell(tuple(witness['vec']), witness['source'], witness['key'], acc)
    else:
        runner.replay_world(witness, acc, MONITORS)
