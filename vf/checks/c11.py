"""C11 - the ticket gate: the real jira_checks (after the real handle_comments)
on a real PullRequestJob over stubs, a real FeatureBranch as source, a real
BranchCascade populated through its own methods, and a fake issue store in
place of bert_e.lib.jira.JiraIssue; against an ordered predicate written from
the statement and the user documentation ("Conditions to merge a pull
request": the checks are done in this order and processing stops at the first
non conformance)."""
import warnings
from types import SimpleNamespace

warnings.filterwarnings('ignore', message='pkg_resources is deprecated')

from vf.func import c11_cases as cases  # noqa: E402
from vf.func import stubs  # noqa: E402
from vf.func.stubs import AUTHOR, LEAD, PEER1, ROBOT  # noqa: E402

ID = 'C11'
LEVEL = 'exploration'
EXHAUSTIVE_MEANS_ALL = False        # the cascades are a hand-picked sample
RULE = ('%d hand-picked cascades (every destination kind: development/x.y, '
        'development/x, stabilization targeted / untargeted / on the last '
        'line, hotfix; expected versions written by hand from the statement '
        'of C09) x 9 settings variants x 6 bypass sources x issue in {absent, '
        '4 configured types, 1 unconfigured type} x every subset of the '
        'per-case fixVersions universe (6-8 names: the expected ones, plain '
        'wrong ones, suffixed, x.y.z.n, x.y.z.0) x source names built from '
        'the feature grammar (9 prefixes x 6 keyed labels upper/lower/mixed '
        'case, 2 labels of a foreign project, 6 labels without a key); when '
        'the gate is switched off (bypass in effect / Jira not configured) '
        'one subset in 8; quick tier: two rotating names per cell, thorough: '
        'all 6 keyed labels, each with 3 rotating prefixes.  Cells are enumerated '
        'without repetition.  Non-trivial = the oracle demands one outcome '
        'and it is a refusal, or a pass while the whole gate is live (not '
        'bypassed, configured, keyed name)' % len(cases.CASES))
ASSUMPTIONS = [
    'pull request, Bert-E, git repository and the Jira server are stubs; the '
    'issue store replaces bert_e.lib.jira.JiraIssue in the harness process '
    'and is case-sensitive on issue keys; settings come from the real '
    'SettingsSchema; the source branch and the cascade are real objects '
    '(branch_factory, add_branch / update_versions / _update_major_versions '
    '/ finalize)',
    'the order of the failure messages is the documented order of '
    'USER_DOC.md (ticket reference, issue exists, project, issue type, fix '
    'versions)',
    '"Jira not configured" = jira_keys, jira_email or jira_account_url empty '
    '(settings.sample.yml); an empty jira_token is a don\'t-care',
    'don\'t-care: a ticketless pull request whose only target is the most '
    'recent development branch (the documentation allows it, the statement '
    'does not say which targets accept ticketless pull requests)',
    'don\'t-care: a fix version x.y.z.0 on a non-hotfix target when it '
    'decides the verdict; fix versions x.y.z.n (n >= 1) count as suffixed '
    '(ignored) on a non-hotfix target',
    'don\'t-care: the version step for a hotfix destination without any '
    'x.y.z* tag (left open by C09)',
    '"leaves the repository untouched" is asserted as: jira_checks posts no '
    'comment / status, calls no method of the stub git or host repository, '
    'and leaves dst_branches / target_versions of the cascade as they were',
]
MIN_NONTRIVIAL = 20000
REQUIRED_COUNTERS = {
    'expected_pass_gate_live': 2000,
    'expected_MissingJiraId': 500,
    'expected_JiraIssueNotFound': 500,
    'expected_IncorrectJiraProject': 200,
    'expected_IssueTypeNotSupported': 500,
    'expected_IncorrectFixVersion': 5000,
    'pass_by_bypass_comment': 500,
    'pass_by_bypass_per_author': 500,
    'pass_by_bypass_cmdline': 500,
    'pass_by_bypass_prefix': 200,
    'pass_by_not_configured': 500,
    'pass_by_version_checks_disabled': 500,
    'hotfix_version_step': 500,
    'untouched_checked': 20000,
    'message_code_checked': 5000,
    'cascades_built': 16,
}
SHARD_TIMEOUT = {'quick': 900, 'thorough': 3600}

PASS = 'pass'
# message codes of the user documentation (USER_DOC.md, table of messages)
DOC_CODES = {'MissingJiraId': 107, 'JiraIssueNotFound': 108,
             'IssueTypeNotSupported': 109, 'IncorrectJiraProject': 110,
             'IncorrectFixVersion': 112}

BASE = dict(jira_keys=list(cases.CONFIGURED_KEYS), jira_email='bot@jira.test',
            jira_account_url='https://jira.test', jira_token='s3cr3t',
            prefixes=dict(cases.TYPE_MAP))
SETTINGS = {
    'full': {},
    'no-type-map': {'prefixes': {}},
    'bypass-prefixes': {'bypass_prefixes': ['documentation', 'dependabot']},
    # entries that are string-prefixes of OTHER branch prefixes (bug/bugfix,
    # feat/feature, doc/documentation, 'bugfix/TEST' of a whole name): the
    # statement speaks of a bypassed branch *prefix*
    'bypass-prefix-of-another': {'bypass_prefixes': ['bug', 'feat', 'doc',
                                                     'bugfix/TEST', 'e']},
    'no-version-checks': {'disable_version_checks': True},
    'combo': {'bypass_prefixes': ['epic'], 'disable_version_checks': True,
              'prefixes': {}},
    'no-token': {'jira_token': ''},
    'no-keys': {'jira_keys': []},
    'no-email': {'jira_email': ''},
    'no-url': {'jira_account_url': ''},
}
SOURCES = ('none', 'comment', 'per_author', 'cmdline',
           'per_author_other_user', 'per_author_other_option')
BYPASSING = ('comment', 'per_author', 'cmdline')
ISSUES = (None, 'Bug', 'Story', 'Improvement', 'Epic',
          cases.UNCONFIGURED_TYPE)
LABELS = {'keyed': cases.KEYED_LABELS, 'other': cases.OTHER_LABELS,
          'unkeyed': tuple((l, None, None) for l in cases.UNKEYED_LABELS)}


def plan(tier, seed):
    return [{} for _ in range(16)]


# ---------------------------------------------------------------------------
# the oracle: the statement, clause by clause, in the documented order
# ---------------------------------------------------------------------------


def settings_view(sid):
    d = dict(BASE)
    d.update(SETTINGS[sid])
    return d


def oracle(case, sid, source, prefix, label_kind, label_idx, issue, mask):
    """-> (set of acceptable outcomes, reason).  issue: None (no such issue
    in Jira) or its type name; mask: subset of universe(case) listed as fix
    versions."""
    cid, branches, tags, dst, targets, versions = case
    cfg = settings_view(sid)
    if source in BYPASSING:
        return {PASS}, 'bypass_' + source
    if prefix in cfg.get('bypass_prefixes', ()):
        return {PASS}, 'bypass_prefix'
    if not (cfg['jira_keys'] and cfg['jira_email']
            and cfg['jira_account_url']):
        return {PASS}, 'not_configured'
    out, why = _gate(case, cfg, label_kind, label_idx, issue, mask)
    if not cfg['jira_token'] and out != {PASS}:
        return out | {PASS}, 'dont_care_no_token'
    return out, why


def _gate(case, cfg, label_kind, label_idx, issue, mask):
    cid, branches, tags, dst, targets, versions = case
    label, project, key = LABELS[label_kind][label_idx]
    if key is None:
        if cases.only_latest_dev(case):
            return {PASS, 'MissingJiraId'}, 'dont_care_ticketless_on_latest'
        return {'MissingJiraId'}, 'no_ticket'
    if issue is None:
        return {'JiraIssueNotFound'}, 'absent'
    if project not in cfg['jira_keys']:
        return {'IncorrectJiraProject'}, 'foreign_project'
    if cfg['prefixes'] and issue not in cfg['prefixes']:
        return {'IssueTypeNotSupported'}, 'type'
    if cfg.get('disable_version_checks'):
        return {PASS}, 'version_checks_disabled'
    uni = cases.universe(case)
    listed = [(n, k) for i, (n, k) in enumerate(uni) if mask >> i & 1]
    if versions is None:
        return {PASS, 'IncorrectFixVersion'}, 'dont_care_hotfix_untagged'
    if dst.startswith('hotfix/'):
        if versions[0] in [n for n, k in listed]:
            return {PASS}, 'hotfix_listed'
        return {'IncorrectFixVersion'}, 'hotfix_not_listed'
    kept = sorted(n for n, k in listed if k in ('expected', 'plain'))
    fits = kept == sorted(versions)
    if any(k == 'dot_zero' for n, k in listed) and fits:
        # kept -> refusal, ignored as suffixed -> pass: the statement is open
        return {PASS, 'IncorrectFixVersion'}, 'dont_care_dot_zero'
    if fits:
        return {PASS}, 'versions_fit'
    return {'IncorrectFixVersion'}, 'versions_differ'


# ---------------------------------------------------------------------------
# harness
# ---------------------------------------------------------------------------


class RecordingRepo:
    """Stands for the git repository (and wraps the host repository): every
    use is recorded; jira_checks must not touch either."""
    def __init__(self, calls, what):
        self.__dict__['_calls'] = calls
        self.__dict__['_what'] = what

    full_name = 'owner/slug'

    def __getattr__(self, name):
        self._calls.append('%s.%s' % (self._what, name))
        return lambda *a, **kw: ''


class Ctx:
    """Per-process state: imports, the fake issue store, caches."""
    def __init__(self):
        import logging
        import warnings
        logging.disable(logging.CRITICAL)
        warnings.filterwarnings('ignore')
        from vf.func import fast
        fast.install()
        from bert_e import exceptions as messages
        from bert_e.lib import jira as jira_lib
        from bert_e.workflow import gitwaterflow as gwf
        from bert_e.workflow.gitwaterflow import branches
        from bert_e.workflow.gitwaterflow import jira as gwf_jira
        from jira.exceptions import JIRAError
        self.messages, self.gwf, self.branches = messages, gwf, branches
        self.jira_checks = gwf_jira.jira_checks
        self.store = store = {}
        self.lookups = lookups = []

        class FakeJiraIssue:
            def __init__(self, account_url, issue_id, email, token):
                lookups.append((account_url, issue_id, email, token))
                if issue_id not in store:
                    raise JIRAError(status_code=404,
                                    text='Issue Does Not Exist')
                itype, names = store[issue_id]
                self.key = issue_id
                self.fields = SimpleNamespace(
                    issuetype=SimpleNamespace(name=itype),
                    fixVersions=[SimpleNamespace(name=n) for n in names])

        jira_lib.JiraIssue = FakeJiraIssue
        self.settings = {}
        self.cascades = {}
        self.sources = {}

    def get_settings(self, sid, source):
        key = (sid, source)
        s = self.settings.get(key)
        if s is None:
            over = settings_view(sid)
            if source == 'per_author':
                over['pr_author_options'] = {AUTHOR: ['bypass_jira_check']}
            elif source == 'per_author_other_user':
                over['pr_author_options'] = {PEER1: ['bypass_jira_check']}
            elif source == 'per_author_other_option':
                over['pr_author_options'] = {
                    AUTHOR: ['bypass_build_status', 'bypass_peer_approval']}
            s = self.settings[key] = stubs.make_settings(**over)
        return s

    def get_cascade(self, case, acc):
        """Real cascade for the case, built the way BranchCascade.build does
        (add_branch for every branch, update_versions for every tag,
        _update_major_versions, finalize)."""
        cid, names, tags, dst, targets, versions = case
        got = self.cascades.get(cid)
        if got is None:
            B = self.branches
            cascade = B.BranchCascade()
            dst_branch = B.branch_factory(None, dst)
            for name in names:
                cascade.add_branch(B.branch_factory(None, name), dst_branch)
            for tag in tags:
                cascade.update_versions(tag)
            cascade._update_major_versions()
            cascade.finalize(dst_branch)
            snap = ([b.name for b in cascade.dst_branches],
                    list(cascade.target_versions))
            differs = None
            if snap[0] != targets:
                differs = 'dst-branches'
            elif versions is not None and snap[1] != versions:
                differs = 'target-versions'
            if differs:
                acc.violation(
                    'cascade-%s-differ-from-C09-statement' % differs,
                    'cascade %s (branches %r, tags %r, destination %s): real '
                    'dst_branches %r, target_versions %r; by the statement '
                    'of C09 %r, %r' % (cid, names, tags, dst, snap[0],
                                       snap[1], targets, versions),
                    {'cascade_only': cid})
            acc.count('cascades_built')
            got = self.cascades[cid] = (cascade, snap, differs)
        return got

    def get_source(self, name):
        b = self.sources.get(name)
        if b is None:
            b = self.sources[name] = self.branches.branch_factory(None, name)
        return b


_ctx = [None]


def ctx():
    if _ctx[0] is None:
        _ctx[0] = Ctx()
    return _ctx[0]


def run_cell(cx, acc, cid, sid, source, prefix, label_kind, label_idx, issue,
             mask, sample=False):
    case = cases.CASE_BY_ID[cid]
    label, project, key = LABELS[label_kind][label_idx]
    name = '%s/%s' % (prefix, label)
    uni = cases.universe(case)
    listed = [n for i, (n, k) in enumerate(uni) if mask >> i & 1]

    # -- the world of the cell ---------------------------------------------
    cx.store.clear()
    del cx.lookups[:]
    if key is None:
        # a perfectly fitting issue that the name does not reference
        cx.store['PROJ-12'] = ('Bug', list(case[5] or []))
    elif issue is not None:
        cx.store[key] = (issue, listed)
    settings = cx.get_settings(sid, source)
    stubs.set_cmd_line_options(
        ['bypass_jira_check'] if source == 'cmdline' else [])
    pr = stubs.StubPR(author=AUTHOR, src=name, dst=case[3])
    if source == 'comment':
        pr.comments = [stubs.StubComment(
            LEAD, '@%s bypass_jira_check' % ROBOT)]
    calls = []
    job = stubs.make_job(settings, pr, RecordingRepo(calls, 'git_repo'))
    job.project_repo = RecordingRepo(calls, 'project_repo')
    cx.gwf.handle_comments(job)
    cascade, snap, differs = cx.get_cascade(case, acc)
    src = cx.get_source(name)
    job.git.src_branch = src
    job.git.dst_branch = cascade.dst_branches[0] if cascade.dst_branches \
        else None
    job.git.cascade = cascade
    del calls[:]
    posted_before = len(pr.posted)

    # -- the real gate -----------------------------------------------------
    exc = None
    try:
        cx.jira_checks(job)
        got = PASS
    except cx.messages.TemplateException as err:
        got, exc = type(err).__name__, err
    except Exception as err:   # noqa
        got, exc = 'unexpected:' + type(err).__name__, err
    acc.evals += 1
    acc.seen('outcomes', got)

    # -- untouched ----------------------------------------------------------
    acc.count('untouched_checked')
    wit = {'case': cid, 'settings': sid, 'source': source, 'prefix': prefix,
           'label_kind': label_kind, 'label_idx': label_idx, 'issue': issue,
           'mask': mask}
    what = ('source %s, issue %s, fixVersions %r, cascade %s (destination '
            '%s, expected versions %r), settings %s, bypass source %s'
            % (name, 'absent' if issue is None else 'of type ' + issue,
               listed, cid, case[3], case[5], sid, source))
    if len(pr.posted) != posted_before or pr.bot_statuses:
        acc.violation('jira-checks-posts-comment-itself',
                      'jira_checks posted %r; %s' % (
                          pr.posted[posted_before:] or pr.bot_statuses, what),
                      wit)
    if calls:
        acc.violation('jira-checks-uses-repository',
                      'jira_checks called %r; %s' % (calls, what), wit)
    if ([b.name for b in cascade.dst_branches],
            list(cascade.target_versions)) != snap \
            or job.git.src_branch is not src or job.git.cascade is not cascade:
        acc.violation('jira-checks-alters-cascade',
                      'cascade / source branch changed; %s' % what, wit)
        cx.cascades.pop(cid, None)

    # -- verdict ------------------------------------------------------------
    accept, why = oracle(case, sid, source, prefix, label_kind, label_idx,
                         issue, mask)
    if why.startswith('dont_care'):
        acc.count(why)
    elif accept == {PASS}:
        if why in ('versions_fit', 'hotfix_listed'):
            acc.count('expected_pass_gate_live')
            acc.nontrivial_disjoint += 1
        elif why == 'version_checks_disabled':
            acc.count('pass_by_version_checks_disabled')
            acc.nontrivial_disjoint += 1
        else:
            acc.count('pass_by_' + why)
    else:
        acc.count('expected_' + next(iter(accept)))
        acc.nontrivial_disjoint += 1
    if why.startswith('hotfix_'):
        acc.count('hotfix_version_step')
    if key is None and cx.lookups:
        acc.count('lookup_for_a_name_without_key')

    if got not in accept:
        exp = '|'.join(sorted(accept))
        if got.startswith('unexpected:'):
            mech = 'unexpected-exception-' + got.split(':')[1]
        elif differs and 'IncorrectFixVersion' in (got, exp):
            mech = 'fix-version-verdict-against-versions-that-differ-from-C09'
        elif got == PASS:
            mech = 'admits-although-%s-due' % exp
        elif accept == {PASS}:
            mech = 'refuses-%s-although-%s' % (got, why.replace('_', '-'))
        else:
            mech = 'message-%s-instead-of-%s' % (got, exp)
        acc.violation(mech, 'jira_checks %s, the statement wants %s (%s); %s'
                      % ('returned' if got == PASS else 'raised ' + got, exp,
                         why, what) + (': %r' % exc if got.startswith(
                             'unexpected') else ''), wit)
    elif exc is not None:
        acc.count('message_code_checked')
        if exc.code != DOC_CODES[got] or not exc.msg.strip():
            acc.violation('message-code-differs-from-documentation',
                          '%s carries code %r, documented %r; %s'
                          % (got, exc.code, DOC_CODES[got], what), wit)
    if sample:
        acc.sample({'source_branch': name, 'issue': issue,
                    'fixVersions': listed, 'cascade': cid,
                    'destination': case[3], 'expected_versions': case[5],
                    'settings': sid, 'bypass_source': source,
                    'oracle': sorted(accept), 'why': why, 'outcome': got})
    return got


def run_shard(spec, acc):
    from vf.world import gates_world
    gates_world.c11_run(spec, acc, 6 if spec['tier'] == 'quick' else 50)
    bad = cases.self_check()
    if bad:
        acc.inconc('hand-written expected versions disagree with the '
                   'independent C09 function: %s' % bad[:3])
        return
    cx = ctx()
    tier, shard, n = spec['tier'], spec['shard'], spec['nshards']
    thorough = tier == 'thorough'
    rot = spec['seed'] * 7919
    nprefix = len(cases.PREFIXES)
    nkeyed = len(cases.KEYED_LABELS)
    group = 0
    nsample = 0
    for case in cases.CASES:
        cid = case[0]
        nsub = 1 << len(cases.universe(case))
        for sid in SETTINGS:
            unconfigured = sid in ('no-keys', 'no-email', 'no-url')
            for source in SOURCES:
                gate_off = unconfigured or source in BYPASSING
                for issue in ISSUES:
                    group += 1
                    if group % n != shard:
                        continue
                    if issue is None:
                        # names without a key: every prefix x every label
                        for p in cases.PREFIXES:
                            for li in range(len(cases.UNKEYED_LABELS)):
                                run_cell(cx, acc, cid, sid, source, p,
                                         'unkeyed', li, None, 0)
                        # absent issue: keyed and foreign names
                        for kind in ('keyed', 'other'):
                            for li in range(len(LABELS[kind])):
                                ps = cases.PREFIXES if thorough else (
                                    cases.PREFIXES[(rot + li) % nprefix],
                                    cases.PREFIXES[(rot + li + 4) % nprefix])
                                for p in ps:
                                    run_cell(cx, acc, cid, sid, source, p,
                                             kind, li, None, 0)
                                rot += 1
                        continue
                    # foreign project whose issue exists (a few subsets)
                    for li in range(len(cases.OTHER_LABELS)):
                        for mask in (0, 1, nsub - 1):
                            rot += 1
                            run_cell(cx, acc, cid, sid, source,
                                     cases.PREFIXES[rot % nprefix], 'other',
                                     li, issue, mask)
                    step = 8 if gate_off else 1
                    for mask in range(rot % step, nsub, step):
                        rot += 1
                        if thorough:
                            todo = [(cases.PREFIXES[(rot + li * 2 + k * 3)
                                                    % nprefix], li)
                                    for li in range(nkeyed)
                                    for k in range(3)]
                        else:
                            todo = [(cases.PREFIXES[(rot + k * 4) % nprefix],
                                     (rot // nprefix + k * 3) % nkeyed)
                                    for k in range(2)]
                        for p, li in todo:
                            nsample += 1
                            run_cell(cx, acc, cid, sid, source, p, 'keyed',
                                     li, issue, mask,
                                     sample=nsample % 5003 == 17)
    acc.exhaustive['%d cascades x 9 settings x 6 bypass sources x 6 issue '
                   'kinds x every fixVersions subset while the gate is live '
                   '(names: %s)' % (len(cases.CASES), 'all keyed labels, '
                                    '3 rotating prefixes' if thorough
                                    else '2 rotating')] = True


def finalize(acc, tier, seed):
    acc.count('cascades', len(cases.CASES))


def replay(w, acc):
    if w.get('world'):
        import random
        from vf.common import env
        from vf.world import gates_world, runner
        runner.quiet()
        return gates_world.c11_cell(
            acc, random.Random('c11w-%s-%s' % (env.seed(), w['idx'])),
            w['idx'])
    cx = ctx()
    if 'cascade_only' in w:
        cx.get_cascade(cases.CASE_BY_ID[w['cascade_only']], acc)
        return
    run_cell(cx, acc, w['case'], w['settings'], w['source'], w['prefix'],
             w['label_kind'], w['label_idx'], w['issue'], w['mask'])
