"""C07 - only the right people can switch options on through comments.

The real handle_comments (real Reactor, real option/command registry) runs on
a stub job for every comment list of three nested alphabets built from a
structured grammar (vf/func/c07_grammar.py).  The oracle reads the structure of
each comment (who, addressed or not, which keywords) and never parses text.

P1/P2  necessary conditions for an option to be in effect afterwards
       (asserted whether or not the evaluation was blocked);
P3     a list with an offending well-formed comment is blocked, and the
       explanation belongs to the first offending comment; a blocking
       explanation needs a comment that justifies it;
P4     metamorphic: comments not addressed to the robot are inert.
"""
import zlib

from vf.func import c07_grammar as G

ID = 'C07'
LEVEL = 'exploration'
EXHAUSTIVE_MEANS_ALL = False
RULE = ('comment lists are enumerated from a structured grammar (author role '
        'x addressing form @robot / @robot: / slash x 1-2 keywords[=arg] from '
        'every registered option and command, two unknown words and four '
        'key=arg tokens x 8 separators x {no, leading, trailing-words, '
        'trailing-punctuation} text x 4 whitespace variants): all lists of '
        'length 1 over A1 (quick: seeded 20 %), all ordered pairs over A2, '
        'all ordered triples over A3, A3 pairs and A2 singles again under a '
        'command-line grant and a per-author grant; lists are enumerated '
        'without repetition, so each is distinct; non-trivial = some comment '
        'addressed to the robot names a privileged, author-only or unknown '
        'keyword')
ASSUMPTIONS = [
    'pull request and comments are stub objects, settings come from the real '
    'SettingsSchema (admins = lead, chief); reset / force_reset handlers are '
    'replaced in the harness process by a marker that records the handler was '
    'entered (they would clone a repository), registry flags untouched',
    '"in effect" = truthy in job.settings.maps[0] or in job.author_bypass '
    'after handle_comments, also when handle_comments raised (the footer of '
    'the explanation lists these options)',
    'one pull request has one author: lists holding both a comment of the '
    'non-admin author and of the admin-who-is-the-author are skipped',
    'don\'t-care (either outcome accepted, P1/P2/P4 still asserted): trailing '
    'text with punctuation; trailing text in the slash form; a command '
    'followed by further keywords (arguments); a command named after an '
    'option; after_pull_request without id; no_octopus from a non-admin '
    '(USER_DOC says admin only, the statement says privileged = bypass_*); '
    'two keywords joined by one of .-:;|+ with no space before it (applied, '
    'then refused as unknown command by the command pass - reported as an '
    'observation, the statement is silent on comments that are entirely '
    'valid); an unknown bypass_* word may be refused for credentials',
    'options of earlier keywords of the offending comment (and of earlier '
    'comments) being in effect at the time of the block is counted, not '
    'asserted: the statement requires a block, which happened',
    'which command runs, and that it runs once, is left to C10; here a '
    'command outcome only needs some comment naming that command',
]
MIN_NONTRIVIAL = 5000
REQUIRED_COUNTERS = {
    'p1_privileged_in_effect_justified': 1000,
    'p2_approve_in_effect_justified': 1000,
    'p3_block_expected_and_seen': 1000,
    'p3_no_block_expected_none_seen': 1000,
    'p4_inert_comparisons': 1000,
    'lists_pairs': 10000,
    'lists_triples': 10000,
    'c07w_robot_messages_checked': 60,
    'c07w_options_in_effect_checked': 20,
}
SHARD_TIMEOUT = {'quick': 900, 'thorough': 3600}

USER = {'author': 'author', 'admin': 'lead', 'admin_author': 'chief',
        'other': 'peer1', 'robot': G.ROBOT}
ADMINS = ['lead', 'chief']

U, NEC, NA, ICS = ('UnknownCommand', 'NotEnoughCredentials', 'NotAuthor',
                   'IncorrectCommandSyntax')
BLOCKING = (U, NEC, NA, ICS)
CMD_OUTCOME = {'help': 'HelpMessage', 'status': 'StatusReport',
               'build': 'CommandNotImplemented',
               'retry': 'CommandNotImplemented',
               'clear': 'CommandNotImplemented',
               'reset': 'entered:reset', 'force_reset': 'entered:force_reset'}

# grants: name -> (command line options, per-author options of 'author')
GRANTS = {
    'none': ((), ()),
    'cmdline': (('bypass_jira_check',), ()),
    'per_author': ((), ('bypass_build_status',)),
}


# ---------------------------------------------------------------------------
# oracle: one comment
# ---------------------------------------------------------------------------
_classify_cache = {}


def classify(c):
    """-> (cls, must, may, cmd)
    cls   'inert' | 'options' | 'command' | 'dontcare'
    must  explanation classes of the offences the statement names
    may   classes the statement does not rule out for this comment
    cmd   command name when the first keyword is a command"""
    r = _classify_cache.get(c)
    if r is None:
        r = _classify_cache[c] = _classify(c)
    return r


def _classify(c):
    """may holds (class, reason) pairs so that every accepted don't-care
    outcome is counted under the reason that made it one."""
    role, form, toks, sep, wsv, text = c
    if text == 'lead':
        return ('inert', frozenset(), frozenset(), None)
    first = G.kind(toks[0][0])
    if first == 'cmd':
        name = toks[0][0]
        if len(toks) == 1 and toks[0][1] is None and text == 'none':
            return ('command', frozenset(), frozenset(), name)
        # a command with arguments: the statement is silent
        may = {(U, 'command_with_arguments')}
        if name in ('build', 'retry', 'clear'):
            may.add(('TypeError', 'command_with_arguments'))
        return ('dontcare', frozenset(), frozenset(may), name)
    must, may = set(), set()
    entitled = role == 'admin'
    authored = role in ('author', 'admin_author')
    for idx, (name, arg) in enumerate(toks):
        k = G.kind(name)
        if k == 'unknown':
            must.add(U)
            if name.startswith('bypass_') and not entitled:
                may.add((NEC, 'unknown_bypass_word'))
        elif k == 'cmd':
            may.add((U, 'command_after_option'))      # silent
        elif k == 'priv':
            if not entitled:
                must.add(NEC)
        elif k == 'author_only':
            if not authored:
                must.add(NA)
        else:
            if name == 'after_pull_request' and arg is None:
                may.add((ICS, 'after_pull_request_without_id'))
            if name == 'no_octopus' and not entitled:
                # USER_DOC: admin only; statement: privileged = bypass_*
                may.add((NEC, 'no_octopus_doc_says_admin'))
    if text == 'words':
        must.add(U)                    # trailing words are further keywords
    if len(toks) == 2 and sep in '.-:;|+' and G.WSV[wsv][0] != 2:
        may.add((U, 'tight_symbol_separator'))        # see ASSUMPTIONS
    reason = None
    if text == 'punct':
        reason = 'trailing_punctuation'
    elif form == 'slash' and text == 'words':
        reason = 'slash_form_trailing_text'
    if reason:
        may |= {(m, reason) for m in must} | {(U, reason)}
        return ('dontcare', frozenset(), frozenset(may), None)
    return ('options', frozenset(must), frozenset(may), None)


def addressed_names(c):
    if c[5] == 'lead':
        return ()
    return [n for n, a in c[2]]


# ---------------------------------------------------------------------------
# running the real code
# ---------------------------------------------------------------------------
class HandlerEntered(Exception):
    def __init__(self, name):
        super().__init__(name)
        self.name = name


class Ctx:
    """Per-process state: real modules, settings per grant, outcome cache."""
    def __init__(self, acc):
        import logging
        logging.disable(logging.CRITICAL)
        from vf.func import fast, stubs
        fast.install()
        from bert_e.workflow import gitwaterflow as gwf
        from bert_e.reactor import Reactor
        self.stubs, self.gwf, self.Reactor = stubs, gwf, Reactor
        self.settings = {}
        self.cache = {}
        self.grant = None
        self.set_grant('none')
        reactor = Reactor()
        for name in ('reset', 'force_reset'):
            old = reactor.dispatch(name)
            if old is None or not hasattr(old, '_replace'):
                continue

            def marker(job, *args, _n=name):
                raise HandlerEntered(_n)
            Reactor.set_callback(name, old._replace(handler=marker))
        registered = set(Reactor.get_options()) | set(Reactor.get_commands())
        extra = sorted(registered - set(G.KIND))
        if extra:
            acc.inconc('the registry has keywords the oracle table does not '
                       'know: %s' % ', '.join(extra))
        self.registered = len(registered)

    def set_grant(self, grant):
        if grant == self.grant:
            return
        cmdline, per_author = GRANTS[grant]
        self.stubs.set_cmd_line_options(list(cmdline))
        if grant not in self.settings:
            over = {'admins': ADMINS}
            if per_author:
                over['pr_author_options'] = {'author': list(per_author)}
            self.settings[grant] = self.stubs.make_settings(**over)
        self.grant = grant
        self.cache.clear()

    def run(self, lst, cache=False, pr_author=None):
        """-> (exception name or None, settings after, options in effect,
        pull request author)"""
        if pr_author is None:
            pr_author = 'chief' if any(c[0] == 'admin_author' for c in lst) \
                else 'author'
        if cache:
            hit = self.cache.get((pr_author, lst))
            if hit is not None:
                return hit
        stubs = self.stubs
        pr = stubs.StubPR(author=pr_author)
        pr.comments = [stubs.StubComment(USER[c[0]], G.render(c), n)
                       for n, c in enumerate(lst)]
        job = stubs.make_job(self.settings[self.grant], pr)
        try:
            self.gwf.handle_comments(job)
            exc = None
        except HandlerEntered as err:
            exc = 'entered:' + err.name
        except Exception as err:
            if 'Stub' in str(err):
                # the code under test needs something the stub job does not
                # provide: a limitation of this harness, never a verdict
                raise RuntimeError('stub job cannot follow the code under '
                                   'test: %s: %s' % (type(err).__name__, err))
            exc = type(err).__name__
        own = job.settings.maps[0]
        settings = {k: (sorted(v) if isinstance(v, (set, frozenset)) else v)
                    for k, v in own.items()}
        effect = {k for k, v in own.items() if v}
        effect.update(k for k, v in job.author_bypass.items() if v)
        res = (exc, settings, frozenset(effect), pr_author)
        if cache and len(self.cache) < 20000:
            self.cache[(pr_author, lst)] = res
        return res


# ---------------------------------------------------------------------------
# the checks on one list
# ---------------------------------------------------------------------------
def witness(lst, grant, other=None):
    w = {'list': [G.as_json(c) for c in lst], 'grant': grant,
         'texts': [[USER[c[0]], G.render(c)] for c in lst]}
    if other is not None:
        w['p4_other'] = [G.as_json(c) for c in other]
    return w


def check_list(lst, grant, acc, ctx, count=True):
    """P1, P2, P3 on one list.  Returns the outcome."""
    res = ctx.run(lst)
    exc, settings, effect, pr_author = res
    cls = [classify(c) for c in lst]
    cmdline, per_author = GRANTS[grant]
    granted = set(cmdline)
    if pr_author == 'author':
        granted.update(per_author)

    if count:
        acc.evals += 1
        acc.count('lists_' + ('singles', 'pairs', 'triples')[len(lst) - 1])
        acc.seen('outcomes', exc or 'returned')
        nontrivial = False
        for c in lst:
            for n in addressed_names(c):
                if G.kind(n) in ('priv', 'author_only', 'unknown'):
                    nontrivial = True
        if nontrivial:
            acc.nontrivial_disjoint += 1

    def desc(what):
        return '%s; pr author=%s grant=%s comments=%r -> %s, in effect %r' % (
            what, pr_author, grant, [(USER[c[0]], G.render(c)) for c in lst],
            exc or 'returned', sorted(effect))

    # -- P1 / P2 / unaddressed text never changes an option -----------------
    for opt in effect:
        if opt in granted:
            acc.count('p1_in_effect_by_grant')
            continue
        namers = [c for c in lst if opt in addressed_names(c)]
        k = G.kind(opt)
        if k == 'priv' or opt.startswith('bypass_'):
            if any(c[0] == 'admin' for c in namers):
                acc.count('p1_privileged_in_effect_justified')
            elif any(c[0] == 'admin_author' for c in namers):
                acc.violation(
                    'privileged-option-set-by-admin-on-own-pull-request',
                    desc('%s in effect, only named by the admin who is the '
                         'author' % opt), witness(lst, grant))
            elif namers:
                acc.violation(
                    'privileged-option-set-by-non-admin',
                    desc('%s in effect, named by %s only' % (
                        opt, sorted({c[0] for c in namers}))),
                    witness(lst, grant))
            else:
                acc.violation(
                    'option-in-effect-without-addressed-comment',
                    desc('%s in effect, no comment addressed to the robot '
                         'names it' % opt), witness(lst, grant))
        elif k == 'author_only':
            if any(c[0] in ('author', 'admin_author') for c in namers):
                acc.count('p2_approve_in_effect_justified')
            elif namers:
                acc.violation(
                    'author-only-option-set-by-non-author',
                    desc('%s in effect, named by %s only' % (
                        opt, sorted({c[0] for c in namers}))),
                    witness(lst, grant))
            else:
                acc.violation(
                    'option-in-effect-without-addressed-comment',
                    desc('%s in effect, no comment addressed to the robot '
                         'names it' % opt), witness(lst, grant))
        else:
            if namers:
                acc.count('plain_option_in_effect_justified')
            else:
                acc.violation(
                    'option-in-effect-without-addressed-comment',
                    desc('%s in effect, no comment addressed to the robot '
                         'names it' % opt), witness(lst, grant))

    # -- P3 -----------------------------------------------------------------
    acceptable = set()
    definite = None
    cmd_outcomes = {CMD_OUTCOME[cmd] for (_, _, _, cmd) in cls if cmd}
    reasons = {}
    for n, (kind_, must, may, cmd) in enumerate(cls):
        for klass, why in may:
            acceptable.add(klass)
            reasons.setdefault(klass, set()).add(why)
        if must:
            acceptable |= must
            definite = n
            break
    if definite is not None:
        if exc in acceptable:
            acc.count('p3_block_expected_and_seen')
            acc.count('p3_block_' + exc)
            if exc not in cls[definite][1]:
                acc.count('p3_block_by_dont_care_class_before_or_in_first_'
                          'offending_comment')
            # counted, not asserted: options applied before the block
            applied = effect - granted
            if applied:
                acc.count('observed_options_in_effect_at_block')
                if any(o in addressed_names(lst[definite]) for o in applied):
                    acc.count('observed_offending_comment_partly_in_effect_'
                              'at_block')
        elif exc is None or exc in CMD_OUTCOME.values():
            acc.violation(
                'offending-comment-does-not-block',
                desc('comment %d must block with %s' % (
                    definite, '/'.join(sorted(cls[definite][1])))),
                witness(lst, grant))
        elif exc in BLOCKING:
            acc.violation(
                'block-explanation-not-for-first-offending-comment',
                desc('comment %d is the first offending one (%s); acceptable '
                     '%s' % (definite, '/'.join(sorted(cls[definite][1])),
                             sorted(acceptable))), witness(lst, grant))
        else:
            acc.violation(
                'unexpected-exception-instead-of-block',
                desc('comment %d must block with %s' % (
                    definite, '/'.join(sorted(cls[definite][1])))),
                witness(lst, grant))
    else:
        if exc is None:
            acc.count('p3_no_block_expected_none_seen')
        elif exc in cmd_outcomes:
            acc.count('p3_no_block_expected_command_ran')
        elif exc in acceptable:
            acc.count('dont_care_outcome_' + exc)
            for why in reasons[exc]:
                acc.count('dont_care_%s_%s' % (why, exc))
        elif exc in BLOCKING:
            acc.violation(
                'block-without-offending-comment',
                desc('no comment names an unknown keyword or a keyword its '
                     'writer may not use'), witness(lst, grant))
        elif exc in CMD_OUTCOME.values():
            acc.violation(
                'command-ran-without-comment-naming-it',
                desc('no comment calls that command'), witness(lst, grant))
        else:
            acc.violation(
                'unexpected-exception',
                desc('handle_comments raised an exception that is no '
                     'message'), witness(lst, grant))
    if count:
        for (kind_, must, may, cmd), c in zip(cls, lst):
            if kind_ == 'dontcare':
                acc.count('dont_care_comment')
            if kind_ == 'options' and may:
                acc.count('dont_care_partly')
        # observations beyond the statement, counted only
        if exc == U and definite is None and not cmd_outcomes and all(
                k in ('options', 'inert') for (k, _, _, _) in cls):
            if all(G.kind(n) in ('priv', 'author_only', 'plain')
                   for c in lst for n in addressed_names(c)):
                acc.count('observed_entirely_valid_options_applied_then_'
                          'refused_as_unknown_command')
        if exc == 'TypeError':
            acc.count('observed_uncaught_TypeError_on_command_arguments')
    return res


def p4(lst, other, grant, acc, ctx, robot_inert, a=None, b=None):
    """lst and other differ only by comments not addressed to the robot.
    other = lst without those comments (or lst = other with one inserted)."""
    if a is None:
        a = ctx.run(lst)
    if b is None:
        # the same pull request (same author) without the comment(s)
        b = ctx.run(other, cache=True, pr_author=a[3])
    acc.count('p4_inert_comparisons')
    if a[1] != b[1] or a[2] != b[2]:
        acc.violation(
            'options-changed-by-unaddressed-comment',
            'with the unaddressed comment(s): %r -> %s %r; without: %r -> %s '
            '%r' % ([(USER[c[0]], G.render(c)) for c in lst], a[0],
                    sorted(a[2]), [(USER[c[0]], G.render(c)) for c in other],
                    b[0], sorted(b[2])), witness(lst, grant, other))
        return
    if a[0] == b[0]:
        return
    if robot_inert:
        # a message of the robot closes the commands written before it
        definite = any(classify(c)[1] for c in other)
        if a[0] is None and not definite:
            acc.count('p4_robot_message_closed_a_command')
            return
    acc.violation(
        'outcome-changed-by-unaddressed-comment',
        'with the unaddressed comment(s): %r -> %s; without: %r -> %s' % (
            [(USER[c[0]], G.render(c)) for c in lst], a[0],
            [(USER[c[0]], G.render(c)) for c in other], b[0]),
        witness(lst, grant, other))


def reduce_and_compare(lst, res, grant, acc, ctx):
    """P4 for lists that contain unaddressed comments."""
    inert = [classify(c)[0] == 'inert' for c in lst]
    if not any(inert):
        return
    keep = tuple(c for c, i in zip(lst, inert)
                 if not (i and c[0] != 'robot'))
    if len(keep) != len(lst):
        p4(lst, keep, grant, acc, ctx, False, a=res)
    keep2 = tuple(c for c, i in zip(lst, inert) if not i)
    if len(keep2) != len(keep):
        p4(lst, keep2, grant, acc, ctx, True, a=res)


_INSERT_ROLES = ('other', 'admin', 'pr_author', 'robot')
_INSERT_BODIES = (
    ('at', (('bypass_peer_approval', None),), ' ', 0, 'lead'),
    ('slash', (('approve', None),), ' ', 0, 'lead'),
    ('atc', (('bypass_build_status', None), ('approve', None)), ',', 1,
     'lead'),
    ('at', (('merge', None),), ' ', 2, 'lead'),
)


def insertion(c, n):
    """P4 for a single comment: the same comment with one unaddressed comment
    inserted before or after it (rotating writer, text, position)."""
    role = _INSERT_ROLES[n % 4]
    if role == 'pr_author':
        role = 'admin_author' if c[0] == 'admin_author' else 'author'
    extra = (role,) + _INSERT_BODIES[(n // 4) % 4]
    lst = (extra, c) if (n // 16) % 2 else (c, extra)
    return lst, role == 'robot'


# ---------------------------------------------------------------------------
# driver interface
# ---------------------------------------------------------------------------
def plan(tier, seed):
    return [{} for _ in range(16)]


def sample_of(lst, res):
    return {'pr_author': res[3],
            'comments': [[c[0], USER[c[0]], G.render(c)] for c in lst],
            'oracle': [[classify(c)[0], sorted(classify(c)[1]),
                        sorted(classify(c)[2])] for c in lst],
            'outcome': res[0] or 'returned', 'in_effect': sorted(res[2])}


def pick(idx, modulus, shard):
    """a few written-out cases spread over the enumeration."""
    return zlib.crc32(b'%d' % idx) % modulus == shard


def run_shard(spec, acc):
    tier, shard, n, seed = (spec['tier'], spec['shard'], spec['nshards'],
                            spec['seed'])
    if not spec.get('limit'):
        # system-level companion: long-lived instance, several PR authors
        from vf.world import c07_world
        c07_world.run(spec, acc, 1 if tier == 'quick' else 8)
    ctx = Ctx(acc)
    limit = spec.get('limit')          # timing slices only

    # -- A1: all lists of length 1 ------------------------------------------
    done = 0
    sampled = [0, 0, 0]
    for i in range(shard, G.A1_SIZE, n):
        if not G.a1_selected(i, seed, tier):
            continue
        c = G.a1_get(i)
        res = check_list((c,), 'none', acc, ctx)
        if classify(c)[0] != 'inert':
            lst, robot = insertion(c, i // n)
            p4(lst, (c,), 'none', acc, ctx, robot, b=res)
        if sampled[0] < 1 and pick(i, 4001, shard):
            sampled[0] += 1
            acc.sample(sample_of((c,), res))
        done += 1
        if limit and done >= limit:
            return
    acc.exhaustive['A1 singles (%s)' % (
        'all' if tier == 'thorough' else 'seeded 20 %')] = tier == 'thorough'

    # -- A2: all ordered pairs ----------------------------------------------
    a2 = G.a2()
    idx = 0
    for c1 in a2:
        for c2 in a2:
            idx += 1
            if idx % n != shard:
                continue
            if not G.compatible((c1[0], c2[0])):
                acc.count('skipped_two_authors')
                continue
            lst = (c1, c2)
            res = check_list(lst, 'none', acc, ctx)
            reduce_and_compare(lst, res, 'none', acc, ctx)
            if sampled[1] < 1 and pick(idx, 4001, shard):
                sampled[1] += 1
                acc.sample(sample_of(lst, res))
    acc.exhaustive['A2 x A2 ordered pairs'] = True
    ctx.cache.clear()

    # -- A3: all ordered triples --------------------------------------------
    a3 = G.a3()
    idx = 0
    for c1 in a3:
        for c2 in a3:
            for c3 in a3:
                idx += 1
                if idx % n != shard:
                    continue
                if not G.compatible((c1[0], c2[0], c3[0])):
                    acc.count('skipped_two_authors')
                    continue
                lst = (c1, c2, c3)
                res = check_list(lst, 'none', acc, ctx)
                reduce_and_compare(lst, res, 'none', acc, ctx)
                if sampled[2] < 1 and pick(idx, 4001, shard):
                    sampled[2] += 1
                    acc.sample(sample_of(lst, res))
    acc.exhaustive['A3 x A3 x A3 ordered triples'] = True

    # -- grants: command line and per-author settings -----------------------
    for grant in ('cmdline', 'per_author'):
        ctx.set_grant(grant)
        idx = 0
        for c1 in a2:
            idx += 1
            if idx % n == shard:
                check_list((c1,), grant, acc, ctx, count=False)
                acc.count('lists_under_grant')
        for c1 in a3:
            for c2 in a3:
                idx += 1
                if idx % n != shard or not G.compatible((c1[0], c2[0])):
                    continue
                res = check_list((c1, c2), grant, acc, ctx, count=False)
                reduce_and_compare((c1, c2), res, grant, acc, ctx)
                acc.count('lists_under_grant')
    ctx.set_grant('none')
    acc.count('a1_size', 0)


def finalize(acc, tier, seed):
    acc.count('a1_size', G.A1_SIZE)
    acc.count('a2_size', len(G.a2()))
    acc.count('a3_size', len(G.a3()))
    if acc.counters.get('p1_in_effect_by_grant', 0) < 100:
        acc.inconc('the grant configurations were not exercised')


def replay(w, acc):
    if w.get('world'):
        from vf.world import c07_world
        return c07_world.replay(w, acc)
    ctx = Ctx(acc)
    grant = w.get('grant', 'none')
    ctx.set_grant(grant)
    lst = tuple(G.from_json(d) for d in w['list'])
    check_list(lst, grant, acc, ctx)
    if w.get('p4_other') is not None:
        other = tuple(G.from_json(d) for d in w['p4_other'])
        rest = list(other)
        removed = []
        for c in lst:
            if rest and rest[0] == c:
                rest.pop(0)
            else:
                removed.append(c)
        robot = any(c[0] == 'robot' for c in removed)
        p4(lst, other, grant, acc, ctx, robot)
