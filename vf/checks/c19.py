"""C19 - integration branches and pull requests stay one-to-one with their
PR; events on children / integration commits are events on the parent."""
import random

from vf.world import gen, monitors, reeval, runner
from vf.world.fork import fork_try
from vf.world.world import World, ROBOT

ID = 'C19'
LEVEL = 'exploration'
RULE = ('histories with up to 3 PRs on overlapping cascades where PR events, '
        'child-PR events and commit events on every source / w / q tip are '
        'delivered in any order and multiplicity, with '
        'always_create_integration_pull_requests / _branches on and off and '
        'the create_pull_requests / create_integration_branches options, '
        'followed by decline or merge; after EVERY job: no duplicate open '
        'integration PR, no integration PR / branch without (parent, target '
        'beyond the first), child title, decline and merge clean-up scope; '
        'at sampled states the same event is delivered in fork children on '
        'the parent, on each child PR, on each w/ tip and on the source tip '
        'and status + resulting state must be equal (commit events whose '
        'sha is also a queue tip are don\'t-cares); distinct = (layout, '
        'mode, #children, #w, job outcome)')
ASSUMPTIONS = [
    'mock host + real git + real Bert-E; the webhook that the creation of a '
    'child PR triggers is emulated by child-PR events of the generator',
    'two pull requests from one source branch are a don\'t-care; the mock '
    'host does not close child PRs whose source branch was deleted, so '
    'their state after a merge is not asserted',
]
MIN_NONTRIVIAL = 15
REQUIRED_COUNTERS = {'c19_states_with_integration_data': 200,
                     'c19_child_titles_checked': 50,
                     'c19_decline_cleanups_checked': 5,
                     'c19_merge_cleanups_checked': 10,
                     'c19_redirect_comparisons': 30,
                     'c19_declined_parent_redirect_comparisons': 5}
SHARD_TIMEOUT = {'quick': 900, 'thorough': 5400}
MONITORS = [monitors.c19_one_to_one]


def configs():
    out = []
    for layout in ('d2', 'd3', 's1d2', 'd1M1d2', 's2d2'):
        for qm in ('queue', 'noqueue', 'skipqueue'):
            for prs, brs in ((True, True), (False, True), (False, False),
                             (True, False)):
                out.append({'layout': layout, 'queue_mode': qm, 'settings': {
                    'always_create_integration_pull_requests': prs,
                    'always_create_integration_branches': brs}})
    return out


def plan(tier, seed):
    return [{} for _ in range(16)]


def once(world, ev, decline=None):
    def child():
        if decline is not None:
            # the author closes the pull request; the webhook for that is
            # NOT delivered (lost, or the server was down)
            world.a_decline(decline)
        rec = world.run(ev[0], ev[1], record=False)
        world.drain()
        return {'status': rec['status'], 'd': reeval.state_digest(world)}
    return fork_try(world, child)


def redirects(world, acc):
    """event on child PR / w tip / source tip == event on the parent"""
    snap = world.snapshot()
    qtips = {s for n, s in snap.refs.items() if n.startswith('q/')}
    for p in snap.prs:
        if p['author'] == ROBOT or p['state'] != 'OPEN':
            continue
        if len([q for q in snap.prs if q['src'] == p['src'] and
                q['author'] != ROBOT and q['state'] == 'OPEN']) > 1:
            continue
        alts = []
        for k in snap.prs:
            if k['author'] == ROBOT and k['state'] == 'OPEN' and \
                    k['src'].startswith('w/') and \
                    k['src'].endswith('/' + p['src']):
                alts.append(('pr', k['id'], 'child-pr'))
        for n, s in snap.refs.items():
            if n.startswith('w/') and n.endswith('/' + p['src']) and \
                    s not in qtips:
                # a sha shared with another PR's branch is ambiguous
                if [m for m, t in snap.refs.items() if t == s] == [n]:
                    alts.append(('commit', 'tip:' + n, 'w-tip'))
        s = snap.refs.get(p['src'])
        if s and s not in qtips and \
                [m for m, t in snap.refs.items() if t == s] == [p['src']]:
            alts.append(('commit', 'tip:' + p['src'], 'source-tip'))
        if not alts:
            continue
        base = once(world, ('pr', p['id']))
        if 'inconclusive' in base:
            acc.count('c19_children_inconclusive')
            continue
        for kind, arg, what in alts:
            r = once(world, (kind, arg))
            if 'inconclusive' in r:
                acc.count('c19_children_inconclusive')
                continue
            acc.evals += 1
            acc.count('c19_redirect_comparisons')
            acc.nontrivial('redirect|%s|%s' % (what, base['status']))
            d = reeval.diff_digest(base['d'], r['d'])
            if r['status'] != base['status'] or d:
                acc.violation(
                    'event-on-%s-differs-from-event-on-parent' % what,
                    'PR #%d: event on parent -> %s; %s(%s) -> %s; state '
                    'difference %s' % (p['id'], base['status'], kind, arg,
                                       r['status'], str(d)[:300]),
                    {'config': world.config(), 'history': world.history,
                     'parent': p['id'], 'alt': [kind, arg]})
            elif len(acc.samples) < 4:
                acc.sample({'config': world.config(), 'parent': p['id'],
                            'event': [kind, arg], 'what': what,
                            'same_status_and_state_as_parent_event':
                            base['status']})


def declined_redirects(world, acc):
    """the parent is declined but the event for that never arrives; the next
    event is one on an integration pull request: it must do what the event
    on the parent would have done (decline the children, delete the
    branches)"""
    snap = world.snapshot()
    for p in snap.prs:
        if p['author'] == ROBOT or p['state'] != 'OPEN':
            continue
        if len([q for q in snap.prs if q['src'] == p['src'] and
                q['author'] != ROBOT and q['state'] == 'OPEN']) > 1:
            continue
        kids = [k for k in snap.prs if k['author'] == ROBOT and
                k['state'] == 'OPEN' and k['src'].startswith('w/') and
                k['src'].endswith('/' + p['src'])]
        if not kids:
            continue
        base = once(world, ('pr', p['id']), decline=p['id'])
        if 'inconclusive' in base:
            acc.count('c19_children_inconclusive')
            continue
        for k in kids:
            r = once(world, ('pr', k['id']), decline=p['id'])
            if 'inconclusive' in r:
                acc.count('c19_children_inconclusive')
                continue
            acc.evals += 1
            acc.count('c19_declined_parent_redirect_comparisons')
            acc.nontrivial('redirect|child-pr-of-declined-parent|%s'
                           % base['status'])
            d = reeval.diff_digest(base['d'], r['d'])
            if r['status'] != base['status'] or d:
                acc.violation(
                    'event-on-child-pr-of-declined-parent-differs-from-'
                    'event-on-parent',
                    'PR #%d declined (event not delivered): event on the '
                    'parent -> %s; event on integration PR #%d -> %s; state '
                    'difference %s' % (p['id'], base['status'], k['id'],
                                       r['status'], str(d)[:300]),
                    {'config': world.config(), 'history': world.history,
                     'parent': p['id'], 'alt': ['pr', k['id']],
                     'declined': p['id']})


def run_shard(spec, acc):
    runner.quiet()
    rng = random.Random('c19-%s-%s' % (spec['seed'], spec['shard']))
    n_hist, jobs = (7, 14) if spec['tier'] == 'quick' else (80, 22)
    cfgs = configs()
    prof = gen.profile(
        p_green=0.85, p_forward=0.45, p_conflict=0.1,
        w={'pr_event': 8, 'child_event': 8, 'commit_event': 8, 'decline': 2,
           'admin': 0.2, 'comment': 2, 'status': 6},
        comments=['/create_pull_requests', '/create_integration_branches',
                  '@robot create_pull_requests', '/approve', '/reset',
                  'just a remark'])
    for i in range(n_hist):
        cfg = cfgs[(spec['shard'] + i * spec['nshards'] +
                    spec['seed']) % len(cfgs)]
        world = None
        try:
            world = World(seed=rng.getrandbits(30), **cfg)

            def on_job(rec, world=world):
                acc.count('jobs')
                acc.seen('job_outcomes', '%s:%s' % (rec['kind'],
                                                     rec['status']))
                monitors.c19_one_to_one(world, rec, acc, {})
            g = gen.Gen(world, rng, prof, on_job)
            op = rng.choice([None, gen.OPENERS['two_prs_same_base'],
                             gen.OPENERS['dest_moves_while_open'],
                             gen.OPENERS['batch_merge'],
                             gen.OPENERS['batch_merge'],
                             gen.OPENERS['conflict_on_later_target'],
                             gen.OPENERS['queue_conflict']])
            if op:
                op(g)
            g.walk(jobs // 2)
            redirects(world, acc)
            declined_redirects(world, acc)
            g.walk(jobs)
            declined_redirects(world, acc)
            # finish: decline or merge what is left
            for p in list(g.prs):
                if rng.random() < 0.5:
                    world.do('decline', pr=p['id'])
                    g.run('pr', p['id'])
                else:
                    g.m_forward(p, 4)
            acc.count('histories')
        except Exception as err:
            acc.count('harness_errors')
            acc.notes.append('%s: %s' % (type(err).__name__, str(err)[:300]))
        finally:
            if world is not None:
                world.close()


def finalize(acc, tier, seed):
    runner.harness_health(acc)


def replay(witness, acc):
    runner.quiet()
    if 'alt' not in witness:
        return runner.replay_world(witness, acc, MONITORS)
    cfg = witness['config']
    world = World(layout=cfg['layout'], queue_mode=cfg['queue_mode'],
                  seed=cfg.get('seed', 0), settings=cfg.get('settings'))
    try:
        for step in witness['history']:
            world.apply(step)
            world.drain()
        if witness.get('declined'):
            declined_redirects(world, acc)
        else:
            redirects(world, acc)
    finally:
        world.close()
