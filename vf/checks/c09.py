"""C09 - target cascade, ignored branches and expected fix versions.

The real BranchCascade (fed through the real branch_factory) is run on every
subset of a 20-name branch universe x 12 tag sets x every member as
destination x discovery orders, and its dst_branches / ignored_branches /
target_versions / raised exception are compared with vf.func.c09_oracle, which
is written from the statement.
"""
import fnmatch
import itertools
import random

from vf.func import c09_oracle as oracle

ID = 'C09'
LEVEL = 'exploration'
EXHAUSTIVE_MEANS_ALL = False      # 12 curated tag sets, not every tag set

DEVS = ['development/4.0', 'development/4.1', 'development/4',
        'development/5.0', 'development/5.1', 'development/5',
        'development/10.0', 'development/10.1', 'development/10']
STABS = ['stabilization/4.0.1', 'stabilization/4.0.2', 'stabilization/4.1.0',
         'stabilization/5.0.0', 'stabilization/5.1.1',
         'stabilization/10.0.0', 'stabilization/10.1.0']
HOTFIXES = ['hotfix/4.0.0', 'hotfix/4.0.1', 'hotfix/5.0.0', 'hotfix/10.0.0']
UNIVERSE = DEVS + STABS + HOTFIXES

TAGSETS = [
    [],
    ['4.0.0'],
    ['4.0.0', '4.0.1', '5.1.0', '10.0.0-rc1'],
    ['v4.0.0', '4.1.0_beta', 'v5.1.0', '5.0.0-rc2'],
    ['4.0.0', '4.0.0.1', '4.0.0.2', '5.0.0.1', '10.0.0.0'],
    ['4.0.1', '4.0.0'],
    ['4.2.0', '5.3.1', '10.1.0'],
    ['4.0.2', '4.1.0', '5.0.0', '5.1.1', '10.0.0', '10.1.0'],
    ['4.0.0', 'v4.0.1.3', '4.0.1.1', '5.0.0', '5.0.0.2', '10.0.0.1',
     '10.0.0'],
    ['4.0.0-rc1', '4.0.1-rc1', '4.1.0rc', '5.1.1_rc3', '10.0.0-alpha',
     'latest', 'v5'],
    ['5.1.0', '4.0.0', '10.0.1', '4.1.1', '5.0.1', '4.1.0', '10.0.0',
     '5.0.0', '10.0.2'],
    ['3.9.0', '6.0.0', 'v4.0.0', '11.2.3', '5.1.0', '5.1.0.4'],
]

KMAX = {'quick': 4, 'thorough': 6}
NSHUFFLES = 6

RULE = (
    'branch universe of 20 names: development/{4,5,10}.{0,1} and '
    'development/{4,5,10} (9), stabilization/4.0.1, 4.0.2 (two micros of one '
    'line), 4.1.0, 5.0.0, 5.1.1, 10.0.0, 10.1.0 (7), hotfix/4.0.0, 4.0.1, '
    '5.0.0, 10.0.0 (4).  Enumerated without repetition: every non-empty '
    'subset of at most 4 (quick) / 6 (thorough) names x 12 fixed tag sets '
    '(none; released; v-prefixed; suffixed pre-release and junk only; hotfix '
    'x.y.z.n forms with and without their x.y.z tag; unsorted; tags of lines '
    'and majors without a branch; every stabilization released) x every '
    'member of the subset as destination x discovery orders.  Orders: one '
    'run through BranchCascade.build() on a fake repository (set iteration '
    'order), plus direct add_branch/update_versions/_update_major_versions/'
    'finalize runs with every permutation of the branches when the subset '
    'has <= 4 names, otherwise identity, reverse and 6 seeded shuffles; tag '
    'orders likewise (all permutations for <= 4 tags when the subset has '
    '<= 4 names, else at most 8 orders), paired cyclically '
    'with the branch orders (not crossed: the add_branch phase leaves an '
    'order-independent state unless it raises).  validate() is called after '
    'every run on a fake repository in which every development branch '
    'includes all earlier chain members.  Every run has a different '
    '(subset, tag set, destination, mode, branch order, tag order), so each '
    'is distinct; non-trivial = the subset has at least two branches and '
    'the oracle decides the outcome (must-reject, or at least one of '
    'targets / ignored / versions compared).')
ASSUMPTIONS = [
    'the repository is a fake object interpreting `git branch -a --list '
    '*prefix/*`, `git tag`, `git merge-base --is-ancestor A B`, `git '
    'checkout`, `git rev-parse`; any other command makes the run '
    'inconclusive',
    'the destination is always a member of the branch set',
    'rejected = a bert_e.exceptions.BertE_Exception raised by build() or '
    'validate(); any other exception class is reported as a crash, also on '
    'an ill-formed cascade',
    'don\'t-care: fix version of a hotfix destination without any x.y.z or '
    'x.y.z.n tag; content of ignored_branches for a hotfix destination '
    '(and the order of ignored_branches everywhere)',
    'don\'t-care (every reading accepted): whether a hotfix tag x.y.z.n '
    'and/or an existing hotfix/x.y.z branch count as "x.y.z is released" '
    '(four combinations; the real code counts the tags, not the branches)',
    'optional rejection (rejection accepted, acceptance must carry the '
    'statement\'s values): a stabilization branch older than a released '
    'patch of its line whose own tag is absent; a stabilization branch that '
    'is not the next unreleased patch of its line',
]
MIN_NONTRIVIAL = 100000
REQUIRED_COUNTERS = {
    'c09w_cascades_compared': 100,
    'c09w_first_cascade_after_a_release_or_new_branch': 20,
    'must_reject_compared': 10000,
    'accept_compared': 10000,
    'targets_compared': 10000,
    'ignored_compared': 10000,
    'versions_compared': 10000,
    'validate_returned': 10000,
    'runs_through_build': 1000,
    'is_ancestor_queries': 1000,
}
SHARD_TIMEOUT = {'quick': 900, 'thorough': 3600}


class UnknownGitCommand(Exception):
    pass


_pos_cache = [None, None]


class FakeRepo:
    """Just enough of bert_e.lib.git.Repository for BranchCascade."""

    def __init__(self, names, tags, command_error):
        self.names = list(names)
        self.tags = list(tags)
        self.command_error = command_error
        key = frozenset(names)
        if _pos_cache[0] != key:       # same subset for many orders
            _pos_cache[:] = [key, {n: i for i, n in
                                   enumerate(oracle.dest_order(names))}]
        self.pos = _pos_cache[1]
        self.queries = 0

    def _refs(self):
        out = []
        for i, n in enumerate(self.names):
            if i == 0:
                out.append(('* ', n))
                if n.startswith('development/'):
                    out.append(('  ', 'remotes/origin/HEAD -> origin/' + n))
            elif i % 2:
                out.append(('  ', n))
            out.append(('  ', 'remotes/origin/' + n))
        return out

    def is_ancestor(self, a, b):
        if a == b:
            return a in self.names
        if a not in self.pos or b not in self.pos:
            return False
        return b.startswith('development/') and self.pos[a] < self.pos[b]

    def cmd(self, command, *args, **kwargs):
        if args:
            command = command % tuple(str(a).strip() for a in args)
        words = command.split()
        if words[:4] == ['git', 'branch', '-a', '--list'] and len(words) == 5:
            pat = words[4].strip('\'"')
            return ''.join('%s%s\n' % (mark, ref) for mark, ref in
                           self._refs()
                           if fnmatch.fnmatchcase(ref.split(' ')[0], pat))
        if words == ['git', 'tag']:
            return ''.join(t + '\n' for t in self.tags)
        if words[:3] == ['git', 'merge-base', '--is-ancestor'] \
                and len(words) == 5:
            self.queries += 1
            a, b = (w.strip('\'"') for w in words[3:])
            if self.is_ancestor(a, b):
                return ''
            raise self.command_error('not an ancestor')
        if words[:2] == ['git', 'checkout'] and len(words) == 3:
            return ''
        if words[:2] == ['git', 'rev-parse'] and len(words) == 3:
            return 'c-%s\n' % words[2]
        raise UnknownGitCommand(command)

    def checkout(self, name):
        return None


_mods = {}


def mods():
    if not _mods:
        import logging
        logging.disable(logging.CRITICAL)
        from bert_e.workflow.gitwaterflow import branches
        from bert_e import exceptions
        from bert_e.lib.simplecmd import CommandError
        _mods.update(branches=branches, BertE=exceptions.BertE_Exception,
                     CommandError=CommandError)
    return _mods


def run_real(mode, names, tags, dst_name):
    """-> (outcome, n_is_ancestor_queries); outcome is
    ('ok', targets, ignored, versions) or ('raise', class name, is Bert-E
    exception, where)."""
    m = mods()
    br = m['branches']
    repo = FakeRepo(names, tags, m['CommandError'])
    cascade = br.BranchCascade()
    where = 'build'
    try:
        dst = br.branch_factory(repo, dst_name)
        if mode == 'build':
            cascade.build(repo, dst)
        else:
            for n in names:
                cascade.add_branch(br.branch_factory(repo, n), dst)
            for t in tags:
                cascade.update_versions(t)
            cascade._update_major_versions()
            cascade.finalize(dst)
        where = 'validate'
        cascade.validate()
    except UnknownGitCommand:
        raise
    except Exception as err:
        return (('raise', type(err).__name__, isinstance(err, m['BertE']),
                 where), repo.queries)
    return (('ok', [b.name for b in cascade.dst_branches],
             list(cascade.ignored_branches),
             list(cascade.target_versions)), repo.queries)


def matches(exp, got):
    """True when the observed outcome is one the statement allows under
    this reading."""
    if got[0] == 'raise':
        return got[2] and (exp['reject'] or exp['reject_optional'])
    if exp['reject']:
        return False
    if got[1] != exp['targets']:
        return False
    if exp['ignored'] is not None and sorted(got[2]) != exp['ignored']:
        return False
    if exp['versions'] is not None and \
            sorted(got[3]) != sorted(exp['versions']):
        return False
    return True


def mechanism(exp, got, dst_name):
    """Short stable key for the kind of disagreement (never the input)."""
    hot = '-hotfix-destination' if dst_name.startswith('hotfix/') else ''
    if got[0] == 'raise':
        cls, berte = got[1], got[2]
        if exp['reject']:
            return 'ill-formed-cascade-crashes-with-%s%s' % (cls, hot)
        if not berte:
            return 'crash-%s-in-%s%s' % (cls, got[3], hot)
        return 'rejects-well-formed-cascade-%s%s' % (cls, hot)
    if exp['reject']:
        return 'accepts-ill-formed-%s%s' % ('+'.join(exp['reject_reasons']),
                                            hot)
    if got[1] != exp['targets']:
        if sorted(got[1]) == sorted(exp['targets']):
            return 'targets-in-wrong-order'
        extra = [n for n in got[1] if n not in exp['targets']]
        if any(not n.startswith('development/') for n in extra):
            return 'targets-include-other-stabilization-or-hotfix'
        if extra:
            return 'targets-include-lower-development-branch'
        return 'targets-miss-a-development-branch'
    if exp['ignored'] is not None and sorted(got[2]) != exp['ignored']:
        return 'ignored-branches-differ'
    wrong = [d for d in exp['version_detail'] if d['version'] not in got[3]]
    if wrong and all(d['stab_not_next'] for d in wrong):
        return 'development-version-skips-a-patch-although-its-' \
               'stabilization-does-not-hold-the-next-patch'
    if wrong:
        return 'fix-version-differs-for-' + '+'.join(
            sorted({d['kind'] for d in wrong}))
    return 'fix-versions-extra-or-duplicated'


def judge(acc, mode, names, tags, dst_name, exp):
    got, nq = run_real(mode, names, tags, dst_name)
    acc.evals += 1
    if nq:
        acc.count('is_ancestor_queries', nq)
    if mode == 'build':
        acc.count('runs_through_build')
    if got[0] == 'ok':
        acc.count('validate_returned')
    else:
        acc.seen('exception_classes', got[1])
    ok = matches(exp, got)
    ref = exp
    if not ok:
        for alt in exp['alts']:
            if matches(alt, got):
                ok, ref = True, alt
                break
    via_alt = ref is not exp
    decided = False
    if ok:
        if via_alt:
            acc.count('dont_care_hotfix_implies_release_reading')
        if got[0] == 'raise':
            if all(e['reject'] for e in [exp] + exp['alts']):
                acc.count('must_reject_compared')
                decided = True
            elif ref['reject']:
                acc.count('dont_care_rejection_demanded_by_one_reading_only')
            else:
                acc.count('dont_care_optional_rejection_taken')
        else:
            acc.count('accept_compared')
            acc.count('targets_compared')
            decided = True
            if ref['reject_optional']:
                acc.count('optional_rejection_not_taken')
            if ref['ignored'] is None:
                acc.count('dont_care_ignored_for_hotfix_destination')
            else:
                acc.count('ignored_compared')
            if ref['versions'] is None:
                acc.count('dont_care_hotfix_version_without_tag')
            else:
                acc.count('versions_compared')
    else:
        decided = True
        # describe the disagreement against the reading closest to what
        # the real code did (same accept/reject kind), primary first
        exp = ([e for e in [exp] + exp['alts']
                if e['reject'] == (got[0] == 'raise')] + [exp])[0]
        mech = mechanism(exp, got, dst_name)
        if got[0] == 'raise':
            real = 'raised %s in %s' % (got[1], got[3])
        else:
            real = 'targets=%r ignored=%r versions=%r' % got[1:]
        if exp['reject']:
            want = 'a Bert-E exception (%s)' % ', '.join(
                exp['reject_reasons'])
        else:
            want = 'targets=%r ignored=%r versions=%r%s' % (
                exp['targets'], exp['ignored'], exp['versions'],
                ' (or a rejection: %s)' % ', '.join(exp['optional_reasons'])
                if exp['reject_optional'] else '')
        acc.violation(
            mech, 'branches=%r tags=%r destination=%s [%s]: real code %s; '
            'statement wants %s' % (sorted(names), sorted(tags), dst_name,
                                    mode, real, want),
            {'mode': mode, 'branches': list(names), 'tags': list(tags),
             'dst': dst_name})
    if decided and len(names) >= 2:
        acc.nontrivial_disjoint += 1
    return got, ok


def orders(items, rng, full=True):
    """All permutations up to 4 items; otherwise identity, reverse and
    seeded shuffles (duplicates removed)."""
    items = list(items)
    if len(items) <= 2 or (full and len(items) <= 4):
        return [list(p) for p in itertools.permutations(items)]
    out = [items, items[::-1]]
    for _ in range(NSHUFFLES):
        s = items[:]
        rng.shuffle(s)
        if s not in out:
            out.append(s)
    return out


def plan(tier, seed):
    return [{} for _ in range(16)]


def subsets(kmax):
    for k in range(1, kmax + 1):
        for comb in itertools.combinations(UNIVERSE, k):
            yield comb


def run_subset(acc, idx, comb, seed, want_cat):
    rng = random.Random(seed * 1000003 + idx)
    b_orders = orders(comb, rng)
    for ti, tags in enumerate(TAGSETS):
        t_orders = orders(tags, rng, full=len(comb) <= 4)
        pairs = [(b_orders[i % len(b_orders)], t_orders[i % len(t_orders)])
                 for i in range(max(len(b_orders), len(t_orders)))]
        for dst_name in comb:
            exp = oracle.expected(comb, tags, dst_name)
            acc.count('oracle_cells')
            if exp['reject']:
                acc.count('oracle_must_reject_cells')
            elif exp['reject_optional']:
                acc.count('oracle_optional_reject_cells')
            else:
                acc.count('oracle_accept_cells')
            if exp['alts']:
                acc.count('oracle_several_readings_cells')
            got, ok = judge(acc, 'build', list(comb), tags, dst_name, exp)
            for b_order, t_order in pairs:
                got, ok = judge(acc, 'direct', b_order, t_order, dst_name,
                                exp)
            if ok and len(comb) >= 3 and category(exp, got, dst_name) == \
                    CATEGORIES[want_cat] and len(acc.samples) < 2:
                acc.sample({
                    'branches': list(comb), 'tags': tags,
                    'destination': dst_name,
                    'orders_run': len(pairs) + 1,
                    'oracle': {k: exp[k] for k in (
                        'reject', 'reject_reasons', 'reject_optional',
                        'targets', 'ignored', 'versions')},
                    'real (last order)': list(got)})


CATEGORIES = ('stabilization destination accepted',
              'development destination with an ignored stabilization',
              'hotfix destination with a version',
              'major-only branch among the targets',
              'ill-formed, rejected',
              'optional rejection taken',
              'three or more targets',
              'tags without effect')


def category(exp, got, dst_name):
    if got[0] == 'raise':
        return CATEGORIES[4] if exp['reject'] else CATEGORIES[5]
    if dst_name.startswith('stabilization/'):
        return CATEGORIES[0]
    if dst_name.startswith('hotfix/'):
        return CATEGORIES[2] if exp['versions'] else None
    if any(n.count('.') == 0 for n in got[1]):
        return CATEGORIES[3]
    if any(n.startswith('stabilization/') for n in got[2]):
        return CATEGORIES[1]
    if len(got[1]) >= 3:
        return CATEGORIES[6]
    return CATEGORIES[7]


def run_shard(spec, acc):
    tier, shard, n = spec['tier'], spec['shard'], spec['nshards']
    if not spec.get('limit'):
        # system-level companion: a long-lived instance while tags and
        # destination branches appear between jobs
        from vf.world import c09_world
        c09_world.run(spec, acc, 2 if tier == 'quick' else 20)
    kmax = spec.get('kmax', KMAX[tier])
    limit = spec.get('limit')           # timing slices only
    want_cat = shard % len(CATEGORIES)
    try:
        for idx, comb in enumerate(subsets(kmax)):
            if idx % n != shard:
                continue
            run_subset(acc, idx, comb, spec['seed'], want_cat)
            if limit and acc.evals >= limit:
                acc.inconc('slice limited to %d evaluations' % limit)
                return
    except UnknownGitCommand as err:
        acc.inconc('the code under test issued a git command the fake '
                   'repository does not know: %s' % err)
        return
    acc.exhaustive['subsets of <= %d of %d branch names x %d tag sets x '
                   'every destination' % (kmax, len(UNIVERSE),
                                          len(TAGSETS))] = True


def replay(w, acc):
    if w.get('c09w'):
        from vf.world import c09_world
        return c09_world.replay(w, acc)
    exp = oracle.expected(w['branches'], w['tags'], w['dst'])
    try:
        judge(acc, w['mode'], w['branches'], w['tags'], w['dst'], exp)
    except UnknownGitCommand as err:
        acc.inconc('unknown git command: %s' % err)
