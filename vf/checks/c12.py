"""C12 - held-back, finished and foreign pull requests are left alone.
W: holds added and removed at every position of a short history on real
repositories; F: early filtering for every (source, destination) name pair."""
import itertools
import random

from vf.world import oracle, runner
from vf.world.world import World, AUTHOR, PEER1, LEAD, ROBOT, rec_summary

ID = 'C12'
LEVEL = 'exploration'
RULE = ('W: a fully approved, green pull request P (2-3 targets) combined '
        'with one hold {wait; after_pull_request on an open / declined / '
        'unknown id; two dependencies; P declined} placed at each of 3 '
        'positions (before the first evaluation, after integration branches '
        'exist, after green builds), then 3-6 hostile steps under the hold '
        '(PR events, commit events on source and w/ tips, new source commit, '
        'more approvals, green reports): no ref named after P (w/*/src, '
        'q/w/id/*) and no destination may change, no integration PR may '
        'appear; then the hold is lifted (comment deleted or dependency '
        'merged) and P must reach Queued / SuccessMessage / Merged within 4 '
        'cooperative rounds; non-holds (dependency already merged, '
        'non-numeric id) must proceed at once; unhandled PRs (destination '
        'release/user/feature, source user/ hotfix/ unknown) must get no '
        'comment. F: the real handle_pull_request on a stub job for every '
        '(source, destination) pair of a name grammar: unhandled pairs post '
        'nothing and touch nothing. distinct W case = (layout, mode, hold, '
        'position, lift); F cells are enumerated without repetition')
ASSUMPTIONS = [
    'W: mock host + real git + real Bert-E; F: stub job, real early_checks / '
    'send_greetings path',
    'development/stabilization names used as PR sources are don\'t-cares '
    '(the statement does not list them as unhandled)',
]
MIN_NONTRIVIAL = 30
REQUIRED_COUNTERS = {'c12_declined_cleanup_under_push_fault': 3,
                     'c12_jobs_under_hold': 60, 'c12_lifts_checked': 20,
                     'c12_f_unhandled_pairs': 500,
                     'c12_f_handled_pairs': 100,
                     'c12_f_dependency_cells': 150}
SHARD_TIMEOUT = {'quick': 900, 'thorough': 5400}

HOLDS = ['wait', 'after_open', 'after_declined', 'after_unknown',
         'after_two', 'declined', 'after_partial']
NONHOLDS = ['after_merged', 'after_nonnumeric']


def plan(tier, seed):
    return [{} for _ in range(16)]


# -- F part -------------------------------------------------------------------
FEATURE_PREFIXES = ('improvement', 'bugfix', 'feature', 'project',
                    'documentation', 'design', 'dependabot', 'epic', 'bug')


def name_grammar():
    labels = ['TEST-1-x', 'test-2', 'x', '1.0', 'a/b', 'w/1.0/x']
    srcs = []
    for p in FEATURE_PREFIXES:
        for lab in labels:
            srcs.append(('feature', '%s/%s' % (p, lab)))
    for lab in labels:
        srcs.append(('user', 'user/' + lab))
    for v in ('1.0.0', '1.0', 'x'):
        srcs.append(('hotfix', 'hotfix/' + v))
    for n in ('release/1.0', 'master', 'wip/x', 'Feature/x', 'w/1.0/bugfix/x',
              'q/1.0', 'q/w/1/1.0/bugfix/x', 'bugfixes/x', 'feature'):
        srcs.append(('other', n))
    for n in ('development/1.0', 'development/1', 'stabilization/1.0.0'):
        srcs.append(('dest-as-source', n))
    dsts = []
    for n in ('development/1.0', 'development/10.2', 'development/2',
              'stabilization/1.0.0', 'stabilization/10.2.33', 'hotfix/1.0.0',
              'hotfix/10.2.33'):
        dsts.append(('dest', n))
    for n in ('release/1.0', 'user/x', 'feature/TEST-1', 'bugfix/x', 'master',
              'w/1.0/bugfix/x', 'q/1.0', 'q/w/1/1.0/bugfix/x',
              'development/1.0.0', 'development/x', 'stabilization/1.0',
              'hotfix/1.0', 'hotfix/x', 'development', 'dev/1.0',
              'Development/1.0', 'stabilization/1.0.0.1', 'hotfix/1.0.0.1'):
        dsts.append(('nodest', n))
    return srcs, dsts


def run_f(acc):
    from vf.func import fast, stubs
    fast.install()
    from bert_e.workflow import gitwaterflow as gwf
    from bert_e import exceptions as messages
    stubs.set_cmd_line_options([])
    srcs, dsts = name_grammar()
    settings = stubs.make_settings()
    for (sk, src), (dk, dst) in itertools.product(srcs, dsts):
        for status in ('OPEN', 'MERGED', 'DECLINED', 'OPEN-dst-gone'):
            gone = status == 'OPEN-dst-gone'
            if gone:
                status = 'OPEN'
            pr = stubs.StubPR(src=src, dst=dst, status=status)
            repo = stubs.StubGitRepo(remote_branches=[] if gone else [dst])
            job = stubs.make_job(settings, pr, git_repo=repo)
            touched = None
            try:
                gwf.handle_pull_request(job)
                outcome = 'returned'
            except AssertionError as err:       # the stub repo was used
                outcome = 'proceeded'
                touched = str(err)
            except messages.SilentException as err:
                outcome = 'silent:' + type(err).__name__
            except messages.TemplateException as err:
                outcome = 'message:' + type(err).__name__
            except messages.InternalException as err:
                outcome = 'internal:' + type(err).__name__
            except Exception as err:
                if 'Stub' in str(err):
                    raise RuntimeError('stub job cannot follow the code '
                                       'under test: %s' % err)
                outcome = 'error:' + type(err).__name__
            acc.evals += 1
            handled = sk == 'feature' and dk == 'dest' and \
                status != 'MERGED' and not gone
            unhandled = (sk in ('user', 'hotfix', 'other') or dk == 'nodest'
                         or status == 'MERGED')
            w = {'f': True, 'src': src, 'dst': dst, 'status': status,
                 'destination_exists': not gone}
            if gone and sk == 'feature' and dk == 'dest':
                # a handled pair whose destination is gone: telling the
                # author is fine, the statement is silent
                acc.count('dont_care_handled_pair_destination_gone')
                continue
            if sk == 'dest-as-source' and dk == 'dest' and status != 'MERGED':
                acc.count('dont_care_destination_name_as_source')
                continue
            acc.nontrivial_disjoint += 1
            if unhandled:
                acc.count('c12_f_unhandled_pairs')
                acc.seen('c12_f_unhandled_outcomes', outcome)
                if pr.posted or pr.bot_statuses:
                    acc.violation(
                        'comment-on-unhandled-pull-request',
                        'PR %s -> %s (%s): %s and posted %r'
                        % (src, dst, status, outcome,
                           [p[:60] for p in pr.posted]), w)
                elif outcome == 'proceeded':
                    acc.violation(
                        'unhandled-pull-request-not-filtered',
                        'PR %s -> %s (%s) went on to the repository (%s)'
                        % (src, dst, status, touched), w)
            elif handled:
                acc.count('c12_f_handled_pairs')
                if status == 'OPEN' and outcome != 'proceeded':
                    acc.violation(
                        'handled-pull-request-filtered-out',
                        'PR %s -> %s (%s): %s' % (src, dst, status, outcome),
                        w)
    acc.exhaustive['F: name grammar pairs x PR status'] = True


# -- F part 2: the dependency gate over every host's status vocabulary ---------
DEP_STATUSES = ('OPEN', 'MERGED', 'DECLINED', 'SUPERSEDED')
#   bitbucket hands back the raw `state` of the pull request, whose fourth
#   value is SUPERSEDED; github and the mock host only ever say the first three


def run_f_dependencies(acc):
    """The real check_dependencies on a stub job: every list of <= 3
    dependencies over the four statuses a git host can report, with and
    without `wait`.  The pull request is released exactly when `wait` is off
    and EVERY dependency is MERGED."""
    from vf.func import fast, stubs
    fast.install()
    from bert_e.workflow import gitwaterflow as gwf
    from bert_e import exceptions as messages
    stubs.set_cmd_line_options([])

    class Dep:
        def __init__(self, pid, status):
            self.id, self.status = pid, status
            self.src_branch, self.dst_branch = 'feature/DEP-%d' % pid, \
                'development/1.0'
            self.title, self.author = 'dep %d' % pid, 'user'

    for n in (0, 1, 2, 3):
        for statuses in itertools.product(DEP_STATUSES, repeat=n):
            for wait in (False, True):
                settings = stubs.make_settings()
                pr = stubs.StubPR(src='feature/TEST-1', dst='development/1.0',
                                  status='OPEN')
                job = stubs.make_job(settings, pr)
                deps = {100 + i: Dep(100 + i, st)
                        for i, st in enumerate(statuses)}
                job.project_repo.get_pull_request = \
                    lambda pid, deps=deps: deps[int(pid)]
                job.settings.wait = wait
                job.settings.after_pull_request = [str(i) for i in deps]
                try:
                    gwf.check_dependencies(job)
                    outcome = 'released'
                except (messages.AfterPullRequest, messages.NothingToDo,
                        messages.IncorrectPullRequestNumber) as err:
                    outcome = 'held:' + type(err).__name__
                acc.evals += 1
                acc.count('c12_f_dependency_cells')
                acc.nontrivial_disjoint += 1
                expect_release = not wait and all(
                    st == 'MERGED' for st in statuses)
                if 'SUPERSEDED' in statuses:
                    acc.count('c12_f_dependency_cells_superseded')
                if (outcome == 'released') != expect_release:
                    acc.violation(
                        'held-pull-request-released-by-dependency-gate'
                        if outcome == 'released' else
                        'dependency-gate-holds-a-free-pull-request',
                        'dependencies %r wait=%s: %s' % (
                            list(statuses), wait, outcome),
                        {'f': 'dependencies', 'statuses': list(statuses),
                         'wait': wait})
    acc.exhaustive['F: <= 3 dependencies x {OPEN, MERGED, DECLINED, '
                   'SUPERSEDED} x wait'] = True


# -- W part -------------------------------------------------------------------
class Case:
    def __init__(self, acc, world, rng, hold, pos, label):
        self.acc, self.w, self.rng = acc, world, rng
        self.hold, self.pos, self.label = hold, pos, label
        self.hold_text = None
        self.under_hold = False
        self.p = None

    def names_of_p(self, refs):
        src, pid = self.p['src'], self.p['id']
        return {n: s for n, s in refs.items()
                if (n.startswith('w/') and n.endswith('/' + src)) or
                n.startswith('q/w/%d/' % pid)}

    def run(self, kind, arg):
        rec = self.w.run(kind, arg)
        self.w.drain()
        self.acc.count('jobs')
        self.acc.seen('job_outcomes', '%s:%s' % (kind, rec['status']))
        if self.under_hold:
            self.check_hold(rec)
        return rec

    def check_hold(self, rec):
        acc = self.acc
        acc.evals += 1
        acc.count('c12_jobs_under_hold')
        b, a = rec['before'], rec['after']
        probs = []
        nb, na = self.names_of_p(b.refs), self.names_of_p(a.refs)
        if self.hold == 'declined':
            # a declined PR loses its integration data; it must not gain any
            if any(n not in nb or nb[n] != s for n, s in na.items()):
                probs.append('integration/queue refs of the PR created or '
                             'updated: %s -> %s' % (nb, na))
        elif nb != na:
            probs.append('integration/queue refs of the PR changed: %s -> %s'
                         % (sorted(nb.items()), sorted(na.items())))
        for n in a.refs:
            if oracle.is_dest(n) and b.refs.get(n) != a.refs.get(n):
                probs.append('destination %s moved' % n)
        kids_b = [p for p in b.prs if p['author'] == ROBOT]
        kids_a = [p for p in a.prs if p['author'] == ROBOT]
        if len(kids_a) > len(kids_b):
            probs.append('integration pull request created')
        if probs:
            acc.violation(
                'held-pull-request-progresses:' + self.hold,
                '%s under hold %r (added at position %d): %s(%s) -> %s: %s'
                % (self.label, self.hold, self.pos, rec['kind'], rec['arg'],
                   rec['status'], '; '.join(probs)[:300]),
                {'case': self.case, 'history': self.w.history,
                 'job': rec_summary(rec), 'hold': self.hold})

    def green(self):
        for n in self.w.refs()[0]:
            if n == self.p['src'] or n.startswith('q/') or \
                    (n.startswith('w/') and n.endswith('/' + self.p['src'])):
                self.w.do('set_status', ref='tip:' + n, state='SUCCESSFUL')


def merge_fully(case, pr, src):
    """drive a helper PR to be merged (cooperative)"""
    w = case.w
    for _ in range(5):
        rec = case.run('pr', pr)
        for n in w.refs()[0]:
            if n == src or n.startswith('q/') or \
                    (n.startswith('w/') and n.endswith('/' + src)):
                w.do('set_status', ref='tip:' + n, state='SUCCESSFUL')
        qs = [n for n in w.refs()[0] if n.startswith('q/w/')]
        if qs:
            case.run('commit', 'tip:' + qs[0])
        if w.snapshot().pr(pr)['state'] == 'MERGED':
            return True
    return False


def run_case(acc, seed, layout, mode, hold, pos):
    rng = random.Random('c12-%s-%s-%s-%s-%s' % (seed, layout, mode, hold,
                                                pos))
    # integration pull requests (the default of a deployment) in the cases
    # at position 1; positions 0 and 2 keep plain integration branches
    world = World(layout=layout, queue_mode=mode, seed=rng.getrandbits(30),
                  settings={'required_peer_approvals': 1,
                            'always_create_integration_pull_requests':
                            pos == 1})
    case = Case(acc, world, rng, hold, pos,
                '%s/%s' % (layout, mode))
    case.case = [seed, layout, mode, hold, pos]
    try:
        chain = world.layout['chain']
        w = world
        dep = dep2 = None
        if hold == 'after_partial':
            # the dependency entered the queue, got a new commit, and the
            # queue was merged: it was only partially merged and stays open
            dsrc = 'bugfix/TEST-90-dep'
            dep = w.do('open_pr', src=dsrc, dst=chain[-1])
            w.do('approve', pr=dep, user=PEER1)
            for _ in range(3):
                rec = case.run('pr', dep)
                if rec['status'] in ('Queued', 'SuccessMessage'):
                    break
                for n in w.refs()[0]:
                    if n == dsrc or (n.startswith('w/') and
                                     n.endswith('/' + dsrc)):
                        w.do('set_status', ref='tip:' + n,
                             state='SUCCESSFUL')
            if rec['status'] == 'Queued':
                w.do('push_commit', branch=dsrc)
                qs = [n for n in w.refs()[0] if n.startswith('q/')]
                for n in qs:
                    w.do('set_status', ref='tip:' + n, state='SUCCESSFUL')
                plain = sorted(n for n in qs if not n.startswith('q/w/'))
                case.run('commit', 'tip:' + plain[-1])
            else:
                w.do('push_commit', branch=dsrc)
            if w.snapshot().pr(dep)['state'] != 'OPEN':
                acc.count('c12_setup_failed')
                return
        if hold in ('after_open', 'after_declined', 'after_two',
                    'after_merged'):
            dsrc = 'bugfix/TEST-90-dep'
            dep = w.do('open_pr', src=dsrc, dst=chain[-1])
            w.do('approve', pr=dep, user=PEER1)
            if hold == 'after_declined':
                w.do('decline', pr=dep)
            if hold in ('after_merged', 'after_two'):
                if not merge_fully(case, dep, dsrc):
                    acc.count('c12_setup_failed')
                    return
            if hold == 'after_two':
                dep2 = w.do('open_pr', src='bugfix/TEST-91-dep2',
                            dst=chain[-1])
        src = 'feature/TEST-1-held'
        pid = w.do('open_pr', src=src, dst=chain[0])
        case.p = {'id': pid, 'src': src}
        w.do('approve', pr=pid, user=PEER1)
        text = {'wait': '/wait',
                'after_open': '/after_pull_request=%s' % dep,
                'after_partial': '/after_pull_request=%s' % dep,
                'after_declined': '/after_pull_request=%s' % dep,
                'after_unknown': '@robot after_pull_request=4242',
                'after_two': '@robot after_pull_request=%s '
                             'after_pull_request=%s' % (dep, dep2),
                'after_merged': '/after_pull_request=%s' % dep,
                'after_nonnumeric': '/after_pull_request=abc',
                'declined': None}[hold]

        def add_hold():
            if hold == 'declined':
                w.do('decline', pr=pid)
            else:
                w.do('comment', pr=pid, user=rng.choice([AUTHOR, PEER1]),
                     text=text)
                case.hold_text = text
            case.under_hold = hold in HOLDS

        steps = ['eval', 'green', 'eval']
        for i, st in enumerate(steps):
            if i == pos:
                add_hold()
                break
            if st == 'eval':
                case.run('pr', pid)
            else:
                case.green()
        if hold == 'declined':
            if pos != 1:
                # the clean-up push is refused for the whole retry window
                # (pushes work again afterwards): the declined PR must not
                # make any progress in that job either
                op0 = w.shim.nops()
                w.shim.set(fail_from=op0 + 1, fail_until=op0 + 6)
                case.under_hold = True
                case.run('pr', pid)
                w.shim.clear()
                acc.count('c12_declined_cleanup_under_push_fault')
            # the first evaluation after the decline cleans up; that is the
            # documented behaviour, not progress
            case.under_hold = False
            case.run('pr', pid)
            case.under_hold = True
        # hostile steps under the hold
        moves = ['pr', 'pr', 'commit_src', 'commit_w', 'push', 'approve',
                 'green', 'pr']
        rng.shuffle(moves)
        for mv in moves[:rng.randrange(3, 7)]:
            heads = w.refs()[0]
            if mv == 'pr':
                case.run('pr', pid)
            elif mv == 'commit_src' and src in heads:
                case.run('commit', 'tip:' + src)
            elif mv == 'commit_w':
                ws = [n for n in heads if n.startswith('w/') and
                      n.endswith('/' + src)]
                if ws:
                    case.run('commit', 'tip:' + rng.choice(ws))
            elif mv == 'push' and src in heads:
                w.do('push_commit', branch=src)
            elif mv == 'approve':
                w.do('approve', pr=pid, user=LEAD)
            elif mv == 'green':
                case.green()
        acc.nontrivial('%s|%s|%s|pos%d' % (layout, mode, hold, pos))
        if hold == 'declined':
            return
        # lift the hold
        case.under_hold = False
        if hold in HOLDS:
            if hold == 'after_open' and rng.random() < 0.5:
                lift = 'dependency-merged'
                if not merge_fully(case, dep, 'bugfix/TEST-90-dep'):
                    acc.count('c12_setup_failed')
                    return
            else:
                lift = 'comment-deleted'
                for c in w.repos[LEAD].get_pull_request(pid).comments:
                    if c.text == case.hold_text:
                        w.do('delete_comment', pr=pid, user=c.author,
                             text=c.text)
        else:
            lift = 'never-held'
        done = None
        for _ in range(5):
            rec = case.run('pr', pid)
            if rec['status'] in ('Queued', 'SuccessMessage', 'Merged') or \
                    w.snapshot().pr(pid)['state'] == 'MERGED':
                done = rec['status']
                break
            case.green()
        acc.evals += 1
        acc.count('c12_lifts_checked')
        acc.nontrivial('%s|%s|%s|lift:%s' % (layout, mode, hold, lift))
        if not done:
            acc.violation(
                'no-progress-after-hold-lifted:' + hold,
                '%s: after %s (%s) the PR did not reach the queue / merge in '
                '5 cooperative rounds; last status %s'
                % (case.label, lift, hold, rec['status']),
                {'case': case.case, 'history': w.history, 'hold': hold})
        elif len(acc.samples) < 5:
            acc.sample({'config': w.config(), 'hold': hold,
                        'hold_added_at_position': pos, 'lift': lift,
                        'status_after_lift': done,
                        'jobs_under_hold': acc.counters.get(
                            'c12_jobs_under_hold')})
    finally:
        world.close()


def run_unhandled(acc, rng, mode):
    world = World(layout='d2', queue_mode=mode, seed=rng.getrandbits(30))
    try:
        w = world
        w._sync_actor()
        w.git('push', '-q', 'origin',
              'origin/development/1.0:refs/heads/release/1.0')
        w.git('push', '-q', 'origin',
              'origin/development/1.0:refs/heads/user/somebody/base')
        cases = [('feature/TEST-5-x', 'release/1.0', None),
                 ('feature/TEST-6-x', 'user/somebody/base', None),
                 ('user/somebody/topic', 'development/1.0', None),
                 ('hotfix/urgent', 'development/1.0', None),
                 ('sandbox', 'development/2.0', None),
                 ('bugfix/TEST-7-x', 'feature/TEST-5-x', None)]
        for src, dst, _ in cases:
            pid = w.do('open_pr', src=src, dst=dst)
            w.do('approve', pr=pid, user=PEER1)
            for ev in (('pr', pid), ('commit', 'tip:' + src), ('pr', pid)):
                rec = w.run(*ev)
                acc.evals += 1
                acc.count('c12_jobs_on_unhandled_prs')
                acc.nontrivial('unhandled|%s|%s|%s' % (
                    src.split('/')[0], dst.split('/')[0], rec['status']))
                snap = rec['after']
                robot_comments = [c for c in snap.comments.get(pid, [])
                                  if c[0] == ROBOT]
                created = [n for n in snap.refs
                           if n not in rec['before'].refs]
                if robot_comments or created:
                    acc.violation(
                        'comment-on-unhandled-pull-request',
                        'PR %s -> %s: %s(%s) -> %s; robot comments %d, refs '
                        'created %s' % (src, dst, ev[0], ev[1],
                                        rec['status'], len(robot_comments),
                                        created),
                        {'config': w.config(), 'history': w.history,
                         'job': rec_summary(rec)})
    finally:
        world.close()


def run_shard(spec, acc):
    runner.quiet()
    rng = random.Random('c12-%s-%s' % (spec['seed'], spec['shard']))
    if spec['shard'] == 0:
        run_f(acc)
        run_f_dependencies(acc)
    cases = [(layout, mode, hold, pos)
             for hold in HOLDS + NONHOLDS
             for pos in (0, 1, 2)
             for mode in ('queue', 'noqueue', 'skipqueue')
             for layout in ('d2', 's1d2', 'd1M1d2')]
    random.Random('c12-%s' % spec['seed']).shuffle(cases)
    # every (hold, position) first: rank by occurrence of the combination
    seen, ranked = {}, []
    for c in cases:
        k = (c[2], c[3])
        seen[k] = seen.get(k, 0) + 1
        ranked.append((seen[k], c))
    ranked.sort(key=lambda x: x[0])
    cases = [c for _, c in ranked]
    mine = cases[spec['shard']::spec['nshards']]
    n = 5 if spec['tier'] == 'quick' else len(mine)
    for c in mine[:n]:
        try:
            run_case(acc, spec['seed'], *c)
        except Exception as err:
            acc.count('harness_errors')
            acc.notes.append('%r: %s: %s' % (c, type(err).__name__,
                                             str(err)[:300]))
    if spec['shard'] in (1, 2, 3):
        run_unhandled(acc, rng, ('queue', 'noqueue', 'skipqueue')[
            spec['shard'] - 1])


def finalize(acc, tier, seed):
    if acc.counters.get('harness_errors', 0) > 4:
        acc.inconc('%d harness errors' % acc.counters['harness_errors'])


def replay(witness, acc):
    runner.quiet()
    if witness.get('f') == 'dependencies':
        run_f_dependencies(acc)
        return
    if witness.get('f'):
        run_f(acc)
        return
    if 'case' in witness:
        run_case(acc, *witness['case'])
    else:
        rng = random.Random(0)
        for mode in ('queue', 'noqueue', 'skipqueue'):
            run_unhandled(acc, rng, mode)
