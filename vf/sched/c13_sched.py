"""Deterministic controlled thread scheduler on Python 3.12 ``sys.monitoring``.

LINE events are enabled (``set_local_events``) only for a chosen set of code
objects.  A *managed* thread that reaches such a line records (thread, code,
line) in the trace and hands the processor over: the scheduling decision is
taken in the yielding thread itself (direct hand-off, no controller thread in
between), the chosen thread's private lock is released and the yielding thread
parks on its own lock.  Exactly one managed thread runs at any time, so a run is
a deterministic function of the sequence of choices and replays exactly.

A thread can also *block* on a condition (``block_until``): it is not eligible
until the condition holds; this is how the blocking ``Queue.get()`` is
modelled (``queue.Queue`` internals are not instrumented).

The run ends when no thread is eligible (every thread finished or blocked on a
false condition).  A wall-clock watchdog, a step limit and any exception in the
harness itself make the run *inconclusive*; they never decide a verdict.

Strategies (``choose(index, enabled, cur) -> thread id``) are called only at
decision points, i.e. when at least two threads are eligible; ``cur`` is the
yielding thread if it is still eligible, else None.  Choosing another thread
than an eligible ``cur`` is a preemption.
"""
import sys
import threading

NEW, READY, BLOCKED, FINISHED = 'new', 'ready', 'blocked', 'finished'

_mon = sys.monitoring
TOOL_ID = _mon.DEBUGGER_ID
_installed = {'tool': False, 'codes': {}}
_current = [None]          # the Sched whose run is in progress
_free_hook = [None]        # uncontrolled mode: called at every instrumented line


class Abort(BaseException):
    """Raised inside managed threads to unwind them at the end of a run (a
    BaseException so that the code under test's ``except Exception`` clauses
    do not swallow it)."""


def _on_line(code, line):
    s = _current[0]
    if s is None:
        hook = _free_hook[0]
        if hook is not None:
            hook()
        return
    t = s.by_ident.get(threading.get_ident())
    if t is None:
        return
    s.yield_point(t, _installed['codes'].get(code, 15), line - code.co_firstlineno)


def instrument(code_objects):
    """Enable LINE events for these code objects (idempotent).  Returns the
    index given to each code object in the traces."""
    if not _installed['tool']:
        _mon.use_tool_id(TOOL_ID, 'vf-c13-sched')
        _mon.register_callback(TOOL_ID, _mon.events.LINE, _on_line)
        _installed['tool'] = True
    for code in code_objects:
        if code not in _installed['codes']:
            _installed['codes'][code] = len(_installed['codes'])
            _mon.set_local_events(TOOL_ID, code, _mon.events.LINE)
    return dict(_installed['codes'])


def uninstrument():
    if _installed['tool']:
        for code in _installed['codes']:
            _mon.set_local_events(TOOL_ID, code, 0)
        _mon.register_callback(TOOL_ID, _mon.events.LINE, None)
        _mon.free_tool_id(TOOL_ID)
        _installed['tool'] = False
        _installed['codes'] = {}


class _PoolThread:
    """A long-lived OS thread that executes the body of one managed thread per
    run (creating and joining threads for every schedule costs more than the
    schedule itself).  Its lock is the managed thread's parking place: the
    thread sleeps in lock.acquire(); lock.release() wakes it exactly once."""
    def __init__(self):
        self.lock = threading.Lock()
        self.lock.acquire()
        self.job = None
        self.retired = False
        self.thread = threading.Thread(target=self._loop, daemon=True,
                                       name='vf-c13-pool')
        self.thread.start()

    def _loop(self):
        while not self.retired:
            self.lock.acquire()
            job, self.job = self.job, None
            if job is not None:
                job()


_pool = []


def _take_pool_thread():
    return _pool.pop() if _pool else _PoolThread()


class _Managed:
    __slots__ = ('idx', 'name', 'fn', 'state', 'lock', 'cond', 'pt',
                 'error', 'steps', 'exited')

    def __init__(self, idx, name, fn):
        self.idx = idx
        self.name = name
        self.fn = fn
        self.state = NEW
        self.lock = None               # the pool thread's lock
        self.cond = None
        self.pt = None
        self.error = None
        self.steps = 0
        self.exited = False


class Sched:
    def __init__(self, choose, watchdog_s=20.0, max_steps=4000):
        self.choose = choose
        self.watchdog_s = watchdog_s
        self.max_steps = max_steps
        self.threads = []
        self.by_ident = {}
        self.trace = []          # ints: thread << 16 | code << 12 | rel. line
        self.choices = []        # thread chosen at each decision point
        self.decisions = []      # (enabled, cur, chosen, preemptions before)
        self.preemptions = 0
        self.switches = 0
        self.aborting = False
        self.outcome = None      # 'quiescent' | 'watchdog' | 'step-limit' | ...
        self.problems = []       # harness-level problems (=> inconclusive)
        self._done = threading.Event()
        self._exited = threading.Semaphore(0)

    # -- set-up ---------------------------------------------------------------
    def add_thread(self, name, fn):
        t = _Managed(len(self.threads), name, fn)
        self.threads.append(t)
        return t.idx

    def _body(self, t):
        # first wake-up of the pool thread = first time the strategy picks t
        try:
            if not self.aborting:
                t.fn()
        except Abort:
            pass
        except BaseException as err:       # harness bug or escaped exception
            t.error = err
        t.state = FINISHED
        if not self.aborting:
            try:
                self._switch(t)
            except Abort:
                pass
        t.exited = True
        self._exited.release()

    # -- hand-off -------------------------------------------------------------
    def _park(self, t):
        if not t.lock.acquire(timeout=self.watchdog_s * 3):
            self.problems.append('thread %s parked for more than %ds'
                                 % (t.name, self.watchdog_s * 3))
            raise Abort()
        if self.aborting:
            raise Abort()

    def _eligible(self):
        out = []
        for t in self.threads:
            if t.state == READY:
                out.append(t)
            elif t.state == BLOCKED and t.cond():
                out.append(t)
        return out

    def _finish_run(self, outcome):
        if self.outcome is None:
            self.outcome = outcome
        self._done.set()

    def _switch(self, me):
        """Called by the only running managed thread (or by the starter with
        me=None) after it has updated its own state."""
        enabled = self._eligible()
        if not enabled:
            self._finish_run('quiescent')
            if me is not None and me.state != FINISHED:
                self._park(me)             # woken only to be aborted
            return
        cur = me if (me is not None and me in enabled) else None
        if len(enabled) == 1:
            nxt = enabled[0]
        else:
            ids = tuple(t.idx for t in enabled)
            pick = self.choose(len(self.choices), ids,
                               cur.idx if cur is not None else None)
            if pick not in ids:
                self.problems.append('strategy chose %r outside %r at '
                                     'decision %d' % (pick, ids,
                                                      len(self.choices)))
                self._finish_run('bad-choice')
                if me is not None and me.state != FINISHED:
                    self._park(me)
                return
            self.decisions.append((ids, cur.idx if cur is not None else None,
                                   pick, self.preemptions))
            self.choices.append(pick)
            nxt = self.threads[pick]
            if cur is not None and nxt is not cur:
                self.preemptions += 1
        if nxt is me:
            if me.state == BLOCKED:
                me.state = READY
            return
        self.switches += 1
        if nxt.state == BLOCKED:
            nxt.state = READY
        nxt.lock.release()
        if me is not None and me.state != FINISHED:
            self._park(me)

    def yield_point(self, t, code_idx, rel_line):
        if self.aborting:
            raise Abort()
        self.trace.append((t.idx << 16) | (code_idx << 12) | (rel_line & 0xfff))
        t.steps += 1
        if len(self.trace) > self.max_steps:
            self.problems.append('more than %d steps' % self.max_steps)
            self._finish_run('step-limit')
            self._park(t)
            return
        t.state = READY
        self._switch(t)

    def block_until(self, cond):
        """Called by a managed thread: give the processor away until cond()
        holds.  Returns at once (without a scheduling point) if it already
        holds."""
        t = self.by_ident[threading.get_ident()]
        if cond():
            return
        t.cond = cond
        t.state = BLOCKED
        self._switch(t)
        t.cond = None

    def current_thread_index(self):
        t = self.by_ident.get(threading.get_ident())
        return t.idx if t is not None else None

    # -- the run --------------------------------------------------------------
    def alive(self, idx):
        """The managed thread has not left its body."""
        t = self.threads[idx]
        return t.state != FINISHED and not t.exited

    def run(self, at_quiescence=None):
        """Let the strategy interleave the managed threads until no thread is
        eligible, call at_quiescence() while everything is parked, then unwind
        the threads.  Returns the outcome string."""
        _current[0] = self
        try:
            for t in self.threads:
                t.pt = _take_pool_thread()
                t.lock = t.pt.lock
                t.pt.job = (lambda t=t: self._body(t))
                self.by_ident[t.pt.thread.ident] = t
                t.state = READY
            self._switch(None)
            if not self._done.wait(self.watchdog_s):
                self.problems.append('wall-clock watchdog (%.0fs) fired'
                                     % self.watchdog_s)
                self.outcome = 'watchdog'
            if self.outcome == 'quiescent' and at_quiescence is not None:
                at_quiescence()
        finally:
            self.aborting = True
            clean = self.outcome == 'quiescent'
            for t in self.threads:
                if t.pt is not None and t.state != FINISHED:
                    try:
                        t.lock.release()
                    except RuntimeError:
                        clean = False
            for t in self.threads:
                if t.pt is None:
                    continue
                if not self._exited.acquire(timeout=self.watchdog_s):
                    self.problems.append('a managed thread did not unwind')
                    clean = False
                    break
            for t in self.threads:
                if t.pt is None:
                    continue
                if clean and t.exited:
                    _pool.append(t.pt)
                else:
                    t.pt.retired = True    # never reused; dies when it returns
            _current[0] = None
        for t in self.threads:
            if t.error is not None:
                self.problems.append('thread %s: unexpected %s: %s' % (
                    t.name, type(t.error).__name__, str(t.error)[:200]))
        if self.problems and self.outcome == 'quiescent':
            self.outcome = 'harness-problem'
        return self.outcome


# -- strategies -------------------------------------------------------------------
def default_pick(enabled, cur):
    """Non-preemptive: keep running the yielding thread; otherwise the
    lowest-numbered eligible thread."""
    return cur if cur is not None else enabled[0]


class Forced:
    """Replay a recorded choice sequence, then continue non-preemptively."""
    def __init__(self, prefix):
        self.prefix = list(prefix)
        self.diverged = False

    def __call__(self, index, enabled, cur):
        if index < len(self.prefix):
            pick = self.prefix[index]
            if pick in enabled:
                return pick
            self.diverged = True
        return default_pick(enabled, cur)


class PCT:
    """PCT-style priorities: random distinct thread priorities, the eligible
    thread with the highest priority runs; at each of d-1 random step numbers
    the running thread's priority drops below all others."""
    def __init__(self, rng, nthreads, depth, est_steps):
        self.prio = list(range(depth, depth + nthreads))
        rng.shuffle(self.prio)
        self.change = {}
        for i in range(depth - 1):
            self.change.setdefault(rng.randrange(max(1, est_steps)),
                                   []).append(depth - 1 - i)
        self.step = 0

    def __call__(self, index, enabled, cur):
        low = self.change.get(index)
        if low and cur is not None:
            self.prio[cur] = low.pop()
        return max(enabled, key=lambda t: self.prio[t])


class RandomWalk:
    """Switch away from the running thread with probability p at each
    decision point; uniform choice otherwise."""
    def __init__(self, rng, p):
        self.rng = rng
        self.p = p

    def __call__(self, index, enabled, cur):
        if cur is not None and self.rng.random() >= self.p:
            return cur
        others = [t for t in enabled if t != cur] or list(enabled)
        return self.rng.choice(others)


def _children(prefix, decisions, bound):
    """Schedules that follow `decisions` up to some index >= len(prefix) and
    take another thread there: (preemptions used, new prefix)."""
    choices = [d[2] for d in decisions]
    out = []
    for i in range(len(decisions) - 1, len(prefix) - 1, -1):
        enabled, cur, chosen, before = decisions[i]
        for alt in enabled:
            if alt == chosen:
                continue
            cost = 1 if (cur is not None and alt != cur) else 0
            if before + cost <= bound:
                out.append((before + cost, tuple(choices[:i]) + (alt,)))
    return out


def dfs(run, bound, shard=0, nshards=1, split_target=None):
    """Enumeration of all choice sequences with at most `bound` preemptions.
    run(prefix, own) executes one schedule with the Forced strategy (the
    prefix, then non-preemptive defaults) and returns its `decisions` list, or
    None to stop.  Every schedule is generated exactly once: a child deviates
    from its parent's recorded path at an index not below the parent's prefix
    length.

    Sharding: every shard first expands the same top of the tree (largest
    subtrees first: fewest preemptions used, shortest prefix) until the
    frontier has `split_target` open prefixes; these common runs are dealt
    round-robin for the accounting (own=True in exactly one shard).  The
    frontier, in a deterministic order, is then dealt round-robin and each
    shard enumerates its subtrees depth-first.
    Returns (number of own runs, complete?)."""
    import heapq
    if split_target is None:
        split_target = 60 * nshards if nshards > 1 else 0
    heap = [(0, 0, ())]
    runs = 0
    k = 0
    while heap and len(heap) < split_target:
        used, _, prefix = heapq.heappop(heap)
        own = (k % nshards) == shard
        k += 1
        decisions = run(prefix, own)
        if decisions is None:
            return runs, False
        if own:
            runs += 1
        for u, child in _children(prefix, decisions, bound):
            heapq.heappush(heap, (u, len(child), child))
    items = sorted(heap)
    for _, _, root in items[shard::nshards]:
        stack = [root]
        while stack:
            prefix = stack.pop()
            decisions = run(prefix, True)
            if decisions is None:
                return runs, False
            runs += 1
            for u, child in _children(prefix, decisions, bound):
                stack.append(child)
    return runs, True
