"""Stub jobs: a *real* PullRequestJob on a stub Bert-E and a stub pull request.

Settings come from the real SettingsSchema (so its validation rules apply);
the gate functions under test (handle_comments, check_approvals,
check_build_status, jira_checks, early_checks, ...) are the real ones.
"""
import os

from bert_e.job import PullRequestJob
from bert_e.settings import SettingsSchema
from bert_e.workflow import gitwaterflow as gwf

ROBOT = 'robot'
AUTHOR = 'author'
PEER1 = 'peer1'
PEER2 = 'peer2'
LEAD = 'lead'
USERS = (AUTHOR, PEER1, PEER2, LEAD, ROBOT)


def make_settings(**over):
    """Real settings object.  Values may be python objects; the schema wants
    strings for scalars (it is fed by yaml BaseLoader in production)."""
    data = {
        'repository_owner': 'owner',
        'repository_slug': 'slug',
        'repository_host': 'mock',
        'robot': ROBOT,
        'robot_email': 'robot@nowhere.invalid',
        'build_key': 'pre-merge',
        'required_peer_approvals': '0',
        'required_leader_approvals': '0',
        'need_author_approval': 'false',
        'admins': [LEAD],
        'project_leaders': [LEAD],
    }
    for k, v in over.items():
        if isinstance(v, bool):
            v = 'true' if v else 'false'
        elif isinstance(v, int):
            v = str(v)
        data[k] = v
    settings = SettingsSchema().load(data)
    settings['use_queue'] = not settings.disable_queues
    return settings


class StubComment:
    def __init__(self, author, text, cid=0):
        self.author = author
        self.text = text
        self.id = cid

    def __repr__(self):
        return '<%s: %r>' % (self.author, self.text)


class StubPR:
    def __init__(self, author=AUTHOR, src='bugfix/TEST-1-x',
                 dst='development/1.0', pr_id=1, status='OPEN'):
        self.author = author
        self.author_display_name = author
        self.src_branch = src
        self.dst_branch = dst
        self.id = pr_id
        self.status = status
        self.title = 'title'
        self.description = ''
        self.src_commit = '0' * 12
        self.comments = []
        self.participants = []
        self.approvals = []
        self.change_requests = []
        self.posted = []          # comments Bert-E tried to post
        self.bot_statuses = []

    def get_participants(self):
        return list(self.participants)

    def get_approvals(self):
        return list(self.approvals)

    def get_change_requests(self):
        return list(self.change_requests)

    def get_comments(self):
        return list(self.comments)

    def add_comment(self, msg):
        self.posted.append(msg)
        c = StubComment(ROBOT, msg)
        self.comments.append(c)
        return c

    def set_bot_status(self, status, title, summary):
        self.bot_statuses.append((status, title))


class StubClient:
    login = ROBOT


class StubProjectRepo:
    full_name = 'owner/slug'

    def __init__(self):
        self.statuses = {}
        self.prs = {}

    def get_build_status(self, revision, key):
        return self.statuses.get((revision, key), 'NOTSTARTED')

    def get_build_url(self, revision, key):
        return 'http://build/%s' % revision

    def get_commit_url(self, revision):
        return 'http://commit/%s' % revision

    def get_pull_request(self, pull_request_id):
        try:
            return self.prs[pull_request_id]
        except KeyError:
            raise Exception('no such pull request')

    def get_pull_requests(self, **kw):
        return []


class StubGitRepo:
    """Only what early_checks needs; anything else is an error so that a
    drift of the code under test cannot silently empty a check."""
    def __init__(self, remote_branches=()):
        self._branches = set(remote_branches)

    def remote_branch_exists(self, name, refresh_cache=False):
        return name in self._branches

    def __getattr__(self, name):
        raise AssertionError('StubGitRepo.%s used by the code under test'
                             % name)


class StubBertE:
    """kept for harness code that only needs a settings holder"""
    def __init__(self, settings, git_repo=None):
        self.settings = settings
        self.client = StubClient()
        self.project_repo = StubProjectRepo()
        self.git_repo = git_repo or StubGitRepo()


_cmdline = [()]
_mock_ready = [False]


def set_cmd_line_options(options):
    """Options given on the command line: recorded here and handed to the
    real BertE.__init__ (which calls gwf.setup with them) by make_job."""
    _cmdline[0] = tuple(sorted(options))


def real_berte(settings):
    """A REAL BertE instance (real __init__ on the mock git host, so every
    attribute the constructor creates exists), 112 us; its collaborators that
    would need a repository are replaced by the stubs afterwards."""
    import atexit
    import shutil
    import tempfile
    from bert_e.bert_e import BertE
    from bert_e.git_host import client_factory, mock
    if not _mock_ready[0]:
        from vf.common import env
        if tempfile.tempdir is None or not os.path.isdir(tempfile.tempdir):
            d = env.mkscratch('vf-stub-')
            tempfile.tempdir = d
            atexit.register(shutil.rmtree, d, True)
        if ('owner', 'slug') not in mock.Repository.repos:
            client_factory('mock', LEAD, 'pw', 'x@x.invalid') \
                .create_repository(slug='slug', owner='owner')
        _mock_ready[0] = True
    settings['cmd_line_options'] = list(_cmdline[0])
    berte = BertE(settings)
    berte.git_repo.delete()
    return berte


def make_job(settings, pr, git_repo=None):
    berte = real_berte(settings)
    berte.client = StubClient()
    berte.project_repo = StubProjectRepo()
    berte.git_repo = git_repo or StubGitRepo()
    return PullRequestJob(bert_e=berte, pull_request=pr)
