"""C09 oracle: target cascade, ignored branches and expected fix versions.

Written from the property statement (and the wording of Bert-E's user
messages: "The following branches will NOT be impacted"), in plain Python.
Shares no code and no regular expression with bert_e: names and tags are
taken apart with str.partition / str.split / str.isdigit only.

Public API
    dest_order(branch_names)              -> ordered list of destination names
    expected(branch_names, tags, dst)     -> dict (see below)
    parse_branch(name), parse_tag(tag)    -> tuples or None

`expected` returns
    reject           bool   the cascade is ill-formed, Bert-E must raise
    reject_reasons   list   which clause(s) of the statement make it ill-formed
    reject_optional  bool   the statement is silent on whether this cascade is
                            acceptable: a rejection is accepted, and so is an
                            acceptance with exactly the values below
    optional_reasons list
    targets          ordered list of branch names
    ignored          sorted list of names, or None when don't-care
    versions         list of fix versions (order-insensitive), or None when
                     don't-care
    version_detail   one entry per version: where it comes from
    alts             list (usually empty) of the same dict computed under the
                     other readings of "released" (see below) that change
                     anything; each of these outcomes is acceptable too

Readings of "released": a hotfix tag x.y.z.n, and an existing hotfix/x.y.z
branch, both presuppose that x.y.z was released; the statement does not say
whether either counts for "release tag exists" / "next unreleased patch" /
"next minor".  The primary result lets x.y.z.n tags count and hotfix branches
not; `alts` holds the three other combinations when they differ.
"""

INF = float('inf')

TWO_STABS = 'two-stabilizations-for-one-version'
STAB_NO_DEV = 'stabilization-without-development-branch'
STAB_RELEASED = 'stabilization-release-tag-exists'
OPT_LATER_RELEASE = 'later-release-of-the-line-exists'
OPT_NOT_NEXT = 'stabilization-is-not-the-next-patch'


def _nums(label, sizes):
    parts = label.split('.')
    if len(parts) not in sizes:
        return None
    out = []
    for p in parts:
        if not (p.isascii() and p.isdigit()):
            return None
        out.append(int(p))
    return tuple(out)


def parse_branch(name):
    """('dev', x, y|None, None) / ('stab', x, y, z) / ('hotfix', x, y, z)."""
    kind, sep, label = name.partition('/')
    if not sep:
        return None
    if kind == 'development':
        n = _nums(label, (1, 2))
        if n:
            return ('dev', n[0], n[1] if len(n) == 2 else None, None)
    elif kind == 'stabilization':
        n = _nums(label, (3,))
        if n:
            return ('stab',) + n
    elif kind == 'hotfix':
        n = _nums(label, (3,))
        if n:
            return ('hotfix',) + n
    return None


def parse_tag(tag):
    """(x, y, z) or (x, y, z, n) for released / v-prefixed / hotfix forms;
    None for suffixed (pre-release) tags and anything else."""
    t = tag[1:] if tag[:1] == 'v' else tag
    return _nums(t, (3, 4))


def _line_key(x, y):
    # development/x after every development/x.*
    return (x, INF if y is None else y)


def dest_order(branch_names):
    """development/x.y by (x, y); development/x after every development/x.*;
    stabilization/x.y.z immediately before development/x.y; hotfix branches
    are outside the chain."""
    items = []
    for name in branch_names:
        p = parse_branch(name)
        if p is None or p[0] == 'hotfix':
            continue
        kind, x, y, z = p
        items.append((_line_key(x, y), 0 if kind == 'stab' else 1,
                      -1 if z is None else z, name))
    items.sort()
    return [it[-1] for it in items]


def _compute(branch_names, tags, dst_name, tags_imply, branch_imply):
    devs, stabs, hotfixes = {}, {}, {}
    parsed = {}
    for name in branch_names:
        p = parse_branch(name)
        parsed[name] = p
        if p is None:
            continue
        kind, x, y, z = p
        if kind == 'dev':
            devs[(x, y)] = name
        elif kind == 'stab':
            stabs.setdefault((x, y), []).append((z, name))
        else:
            hotfixes[(x, y, z)] = name
    for lst in stabs.values():
        lst.sort()

    released = {}   # (x, y) -> set of released z
    hfrevs = {}     # (x, y, z) -> set of n   (x.y.z itself counts as n = 0)
    for tag in tags:
        n = parse_tag(tag)
        if n is None:
            continue
        x, y, z = n[:3]
        if len(n) == 3:
            released.setdefault((x, y), set()).add(z)
            hfrevs.setdefault((x, y, z), set()).add(0)
        else:
            hfrevs.setdefault((x, y, z), set()).add(n[3])
            if tags_imply:
                released.setdefault((x, y), set()).add(z)
    if branch_imply:
        for (x, y, z) in hotfixes:
            released.setdefault((x, y), set()).add(z)

    def next_patch(line):
        return max(released.get(line, ()), default=-1) + 1

    # -- ill-formed cascades ------------------------------------------------
    reasons, optional = [], []
    for line, lst in sorted(stabs.items()):
        if len(lst) > 1:
            reasons.append(TWO_STABS)
        if line not in devs:
            reasons.append(STAB_NO_DEV)
        for z, _ in lst:
            rel = released.get(line, set())
            if z in rel:
                reasons.append(STAB_RELEASED)
            elif rel and z < max(rel):
                optional.append(OPT_LATER_RELEASE)
            elif z > next_patch(line):
                optional.append(OPT_NOT_NEXT)
    reasons = sorted(set(reasons))
    optional = sorted(set(optional))

    # -- targets --------------------------------------------------------------
    dst = parsed.get(dst_name)
    if dst is None or dst_name not in branch_names:
        raise ValueError('destination %r is not a branch of the set'
                         % (dst_name,))
    chain = dest_order(branch_names)
    detail = []
    if dst[0] == 'hotfix':
        targets = [dst_name]
        ignored = None          # don't-care (statement silent)
        revs = hfrevs.get(dst[1:4])
        if not revs:
            versions = None     # don't-care: no x.y.z / x.y.z.n tag at all
        else:
            v = '%d.%d.%d.%d' % (dst[1], dst[2], dst[3], max(revs) + 1)
            versions = [v]
            detail.append({'version': v, 'from': dst_name, 'kind': 'hotfix',
                           'stab_not_next': False})
    else:
        after = chain[chain.index(dst_name) + 1:]
        targets = [dst_name] + [n for n in after if parsed[n][0] == 'dev']
        ignored = sorted(n for n in chain if n not in targets)
        versions = []
        for name in targets:
            kind, x, y, z = parsed[name]
            line = (x, y)
            if kind == 'stab':
                v = '%d.%d.%d' % (x, y, z)
                detail.append({'version': v, 'from': name, 'kind': 'stab',
                               'stab_not_next': False})
            elif y is not None:
                if dst[0] == 'stab' and dst[1:3] == line:
                    continue    # the targeted stabilization speaks for it
                nxt = next_patch(line)
                not_next = False
                for sz, _ in stabs.get(line, ()):
                    if sz == nxt:
                        nxt += 1     # held by the untargeted stabilization
                    else:
                        not_next = True
                v = '%d.%d.%d' % (x, y, nxt)
                detail.append({'version': v, 'from': name,
                               'kind': 'dev-minor',
                               'stab_not_next': not_next})
            else:
                minors = [yy for (xx, yy) in devs
                          if xx == x and yy is not None]
                minors += [yy for (xx, yy), zs in released.items()
                           if xx == x and zs]
                v = '%d.%d.0' % (x, max(minors, default=-1) + 1)
                detail.append({'version': v, 'from': name,
                               'kind': 'dev-major', 'stab_not_next': False})
            versions.append(v)

    return {
        'reject': bool(reasons),
        'reject_reasons': reasons,
        'reject_optional': bool(optional) and not reasons,
        'optional_reasons': optional,
        'targets': targets,
        'ignored': ignored,
        'versions': versions,
        'version_detail': detail,
    }


_CMP_KEYS = ('reject', 'reject_optional', 'targets', 'ignored')


def _same(a, b):
    if any(a[k] != b[k] for k in _CMP_KEYS):
        return False
    if a['reject'] and b['reject']:
        return True
    va, vb = a['versions'], b['versions']
    if va is None or vb is None:
        return va is vb
    return sorted(va) == sorted(vb)


def expected(branch_names, tags, dst_name):
    branch_names = list(branch_names)
    tags = list(tags)
    prim = _compute(branch_names, tags, dst_name, True, False)
    alts = []
    for reading in ((True, True), (False, False), (False, True)):
        other = _compute(branch_names, tags, dst_name, *reading)
        if not _same(prim, other) and \
                not any(_same(a, other) for a in alts):
            other['alts'] = []
            alts.append(other)
    prim['alts'] = alts
    return prim
