"""C07 - the structured comment grammar, its renderer and the three nested
alphabets A1 (single comments), A2 (pairs) and A3 (triples).

A comment is a *structure*, never a text that the oracle would have to parse:

    (role, form, toks, sep, wsv, text)

    role  who posts: 'author' | 'admin' | 'admin_author' | 'other' | 'robot'
    form  addressing form: 'at' (@robot kw) | 'atc' (@robot: kw) | 'slash' (/kw)
    toks  1-2 keywords, each (name, arg-or-None)
    sep   the separator between two keywords, one of ' ,.-:;|+'
    wsv   whitespace variant, index into WSV (padding of the separator,
          whitespace around the whole comment, '@robot:kw' without a gap)
    text  'none' | 'lead' (text before the address: the comment is then NOT
          addressed to the robot) | 'words' (trailing words) | 'punct'
          (trailing text with punctuation)

The oracle (vf/checks/c07.py) reads these fields; only `render` turns them
into the text that the real code sees.  Nothing here imports bert_e.
"""
import zlib

ROBOT = 'robot'

ROLES = ('author', 'admin', 'admin_author', 'other', 'robot')
FORMS = ('at', 'atc', 'slash')
SEPS = ' ,.-:;|+'
TEXTS = ('none', 'lead', 'words', 'punct')
# (padding of the separator 0 'a,b' / 1 'a, b' / 2 'a , b',
#  whitespace around the whole comment, no gap after '@robot:')
WSV = ((0, ('', ''), False),
       (1, ('', ''), False),
       (2, ('  ', '  \n'), False),
       (0, ('\n', '\n'), True))
LEADS = ('please ', 'fyi: ', '> ')

# -- keywords: written from USER_DOC.md (tables "options name" and "command
# name"), the robot's help message and the statement ("any bypass_*") -------
PRIVILEGED = ('bypass_author_approval', 'bypass_build_status',
              'bypass_commit_size', 'bypass_incompatible_branch',
              'bypass_jira_check', 'bypass_peer_approval',
              'bypass_leader_approval')
AUTHOR_ONLY = ('approve',)
PLAIN = ('after_pull_request', 'create_pull_requests',
         'create_integration_branches', 'no_octopus', 'unanimity', 'wait')
COMMANDS = ('help', 'status', 'build', 'retry', 'clear', 'reset',
            'force_reset')
UNKNOWN = ('merge', 'bypass_all')

KIND = {}
for _n in PRIVILEGED:
    KIND[_n] = 'priv'
for _n in AUTHOR_ONLY:
    KIND[_n] = 'author_only'
for _n in PLAIN:
    KIND[_n] = 'plain'
for _n in COMMANDS:
    KIND[_n] = 'cmd'


def kind(name):
    return KIND.get(name, 'unknown')


# every registered option and command alone, two unknown words, and
# keywords with an argument
TOKENS = tuple([(n, None) for n in PRIVILEGED + AUTHOR_ONLY + PLAIN +
                COMMANDS + UNKNOWN] +
               [('after_pull_request', '3'), ('bypass_build_status', '1'),
                ('approve', 'yes'), ('merge', '1')])
NT = len(TOKENS)


def render(c):
    role, form, toks, sep, wsv, text = c
    pad, surround, tight_gap = WSV[wsv]
    words = [n if a is None else '%s=%s' % (n, a) for n, a in toks]
    if form == 'slash':
        words = ['/' + w for w in words]
    if pad == 0:
        joint = sep
    elif pad == 1:
        joint = sep + ' '
    else:
        joint = ' ' + sep + ' '
    body = joint.join(words)
    if form == 'at':
        s = '@%s %s' % (ROBOT, body)
    elif form == 'atc':
        s = '@%s:%s%s' % (ROBOT, '' if tight_gap else ' ', body)
    else:
        s = body
    if text == 'words':
        s += ' thanks'
    elif text == 'punct':
        s += ' thanks!'
    elif text == 'lead':
        s = LEADS[(len(toks) + SEPS.index(sep) + wsv) % len(LEADS)] + s
    return surround[0] + s + surround[1]


def as_json(c):
    role, form, toks, sep, wsv, text = c
    return {'role': role, 'form': form, 'toks': [list(t) for t in toks],
            'sep': sep, 'wsv': wsv, 'text': text}


def from_json(d):
    return (d['role'], d['form'], tuple(tuple(t) for t in d['toks']),
            d['sep'], d['wsv'], d['text'])


# ---------------------------------------------------------------------------
# A1: the whole grammar for one comment (indexable, so that shards take
# strides without enumerating what they skip)
# ---------------------------------------------------------------------------
_SINGLE_WSV = (0, 2, 3)          # variant 1 only differs for two keywords
N_SINGLE = NT * len(FORMS) * len(TEXTS) * len(_SINGLE_WSV)
N_PAIR = NT * NT * len(FORMS) * len(SEPS) * len(TEXTS) * len(WSV)
A1_COMMENTS = N_SINGLE + N_PAIR
A1_SIZE = A1_COMMENTS * len(ROLES)


def a1_get(i):
    """i in range(A1_SIZE) -> comment structure."""
    i, r = divmod(i, len(ROLES))
    role = ROLES[r]
    if i < N_SINGLE:
        i, w = divmod(i, len(_SINGLE_WSV))
        i, t = divmod(i, len(TEXTS))
        i, f = divmod(i, len(FORMS))
        return (role, FORMS[f], (TOKENS[i],), ' ', _SINGLE_WSV[w], TEXTS[t])
    i -= N_SINGLE
    i, w = divmod(i, len(WSV))
    i, t = divmod(i, len(TEXTS))
    i, s = divmod(i, len(SEPS))
    i, f = divmod(i, len(FORMS))
    k1, k2 = divmod(i, NT)
    return (role, FORMS[f], (TOKENS[k1], TOKENS[k2]), SEPS[s], w, TEXTS[t])


def a1_selected(i, seed, tier):
    """thorough: everything; quick: a seeded 20 % (no repetition)."""
    if tier == 'thorough':
        return True
    return zlib.crc32(b'%d:%d' % (seed, i)) % 5 == 0


# ---------------------------------------------------------------------------
# A2 (subset of A1): every keyword alone in each addressing form, one
# two-keyword comment per ordered pair of keyword classes and separator class,
# a few comments with leading / trailing text
# ---------------------------------------------------------------------------
_CLASS1 = (('bypass_peer_approval', None), ('approve', None), ('wait', None),
           ('merge', None), ('help', None))
_CLASS2 = (('bypass_jira_check', None), ('approve', None),
           ('unanimity', None), ('bypass_all', None), ('status', None))
_A2_SEPS = ((' ', 0), (',', 1), ('-', 0))   # whitespace, comma, tight symbol


def _a2_bodies():
    out = []
    for tok in TOKENS:
        for form in FORMS:
            out.append((form, (tok,), ' ', 0, 'none'))
    n = 0
    for t1 in _CLASS1:
        for t2 in _CLASS2:
            for (sep, wsv) in _A2_SEPS:
                out.append((FORMS[n % 3], (t1, t2), sep, wsv, 'none'))
                n += 1
    out += [
        ('at', (('bypass_peer_approval', None),), ' ', 0, 'lead'),
        ('slash', (('approve', None),), ' ', 0, 'lead'),
        ('atc', (('wait', None), ('help', None)), ',', 1, 'lead'),
        ('at', (('approve', None),), ' ', 0, 'words'),
        ('at', (('bypass_peer_approval', None),), ' ', 0, 'punct'),
        ('slash', (('approve', None),), ' ', 0, 'words'),
    ]
    return out


def a2():
    return [(role,) + b for b in _a2_bodies() for role in ROLES]


# ---------------------------------------------------------------------------
# A3 (subset of A2): three privileged options, approve, wait, unanimity, one
# unknown word, help, reset, one unaddressed line - in '@robot' and '/' form
# ---------------------------------------------------------------------------
_A3_ITEMS = ((('bypass_peer_approval', None), 'none'),
             (('bypass_build_status', None), 'none'),
             (('bypass_jira_check', None), 'none'),
             (('approve', None), 'none'),
             (('wait', None), 'none'),
             (('unanimity', None), 'none'),
             (('merge', None), 'none'),
             (('help', None), 'none'),
             (('reset', None), 'none'),
             (('bypass_peer_approval', None), 'lead'))


def a3():
    out = []
    for tok, text in _A3_ITEMS:
        for form in ('at', 'slash'):
            if text == 'lead' and form == 'slash':
                tok = ('approve', None)      # the A2 line 'please /approve'
            for role in ROLES:
                out.append((role, form, (tok,), ' ', 0, text))
    return out


def compatible(roles):
    """One pull request has one author: a list cannot hold both a comment of
    the (non-admin) author and one of the admin who is the author."""
    return not ('author' in roles and 'admin_author' in roles)
