"""C11 - hand-picked cascades with their expected fix versions, the per-case
fixVersions universe and the feature-branch name forms.

Nothing here imports bert_e.  The expected versions are written by hand from
the statement of C09 and cross-checked, at import time, against a small
function that computes them from the same statement (``c09_versions``); the
real BranchCascade is never consulted for them.
"""

# ---------------------------------------------------------------------------
# expected versions of C09, from its statement only
# ---------------------------------------------------------------------------


def _ints(text):
    return [int(p) for p in text.split('.')]


def _release_of(tag):
    """(x, y, z, n or None) for released tag forms x.y.z / vx.y.z / x.y.z.n;
    None for anything else (suffixed tags are pre-releases)."""
    t = tag[1:] if tag.startswith('v') else tag
    parts = t.split('.')
    if len(parts) not in (3, 4) or not all(p.isdigit() for p in parts):
        return None
    nums = [int(p) for p in parts]
    return tuple(nums) if len(nums) == 4 else tuple(nums) + (None,)


def c09_versions(branches, tags, dst):
    """Expected fix versions by the statement of C09.  Returns (targets,
    versions); versions is None for the cell C09 leaves open (hotfix
    destination without any x.y.z* tag)."""
    released = [r for r in map(_release_of, tags) if r]
    kind, _, ver = dst.partition('/')
    if kind == 'hotfix':
        x, y, z = _ints(ver)
        revs = [(r[3] or 0) for r in released if r[:3] == (x, y, z)]
        if not revs:
            return [dst], None
        return [dst], ['%d.%d.%d.%d' % (x, y, z, max(revs) + 1)]

    BIG = 10 ** 9
    devs, stabs = [], {}
    for b in branches:
        k, _, v = b.partition('/')
        if k == 'development':
            nums = _ints(v)
            devs.append((nums[0], nums[1] if len(nums) > 1 else BIG))
        elif k == 'stabilization':
            x, y, z = _ints(v)
            stabs[(x, y)] = z
    devs.sort()
    nums = _ints(ver)
    if kind == 'stabilization':
        start, targeted_stab = (nums[0], nums[1]), (nums[0], nums[1])
    else:
        start = (nums[0], nums[1] if len(nums) > 1 else BIG)
        targeted_stab = None
    targets, versions = ([dst] if targeted_stab else []), []
    for (x, y) in devs:
        if (x, y) < start:
            continue
        targets.append('development/%d' % x if y == BIG
                       else 'development/%d.%d' % (x, y))
        if y == BIG:
            minors = [m for (mx, m) in devs if mx == x and m != BIG]
            minors += [r[1] for r in released if r[0] == x]
            versions.append('%d.%d.0' % (x, max(minors + [-1]) + 1))
        elif (x, y) == targeted_stab:
            versions.append('%d.%d.%d' % (x, y, stabs[(x, y)]))
        else:
            nxt = max([r[2] for r in released if r[:2] == (x, y)] + [-1]) + 1
            if stabs.get((x, y)) == nxt:
                nxt += 1
            versions.append('%d.%d.%d' % (x, y, nxt))
    return targets, versions


# ---------------------------------------------------------------------------
# the cascades: (id, branches, tags, destination, targets, versions) - the
# last two written by hand.  versions None = left open by C09.
# ---------------------------------------------------------------------------
_A = ['development/4.0', 'development/4.1', 'development/5.0']
_A_TAGS = ['4.0.0', '4.0.1', '4.0.2', '4.0.3', '4.1.0', 'v4.1.1']
_S = ['development/4.0', 'stabilization/4.0.2', 'development/4.1']
_S_TAGS = ['4.0.0', '4.0.1']
_L = ['development/4.0', 'development/4.1', 'stabilization/4.1.0']
_L_TAGS = ['4.0.0']
_T = ['development/4.0', 'stabilization/4.0.1', 'development/4.1',
      'stabilization/4.1.3', 'development/5.0']
_T_TAGS = ['4.0.0', '4.1.0', '4.1.1', '4.1.2']
_M = ['development/4.0', 'development/4.1', 'development/4']
_M_TAGS = ['4.0.0', '4.1.0']
_H = ['development/4.0', 'development/4.1', 'hotfix/4.0.1']
_H_TAGS = ['4.0.0', '4.0.1', '4.0.2']

CASES = [
    ('single-dev-untagged', ['development/4.0'], [], 'development/4.0',
     ['development/4.0'], ['4.0.0']),
    ('single-dev-tagged', ['development/4.0'], ['4.0.0', '4.0.1'],
     'development/4.0', ['development/4.0'], ['4.0.2']),
    ('three-dev-first', _A, _A_TAGS, 'development/4.0',
     _A, ['4.0.4', '4.1.2', '5.0.0']),
    ('three-dev-middle', _A, _A_TAGS, 'development/4.1',
     _A[1:], ['4.1.2', '5.0.0']),
    ('three-dev-last', _A, _A_TAGS, 'development/5.0',
     _A[2:], ['5.0.0']),
    ('suffixed-tags', ['development/4.0', 'development/4.1'],
     ['4.0.0', '4.0.1-rc1', '4.1.0_hf2', '4.1.0-rc3'], 'development/4.0',
     ['development/4.0', 'development/4.1'], ['4.0.1', '4.1.0']),
    ('stab-targeted', _S, _S_TAGS, 'stabilization/4.0.2',
     ['stabilization/4.0.2', 'development/4.0', 'development/4.1'],
     ['4.0.2', '4.1.0']),
    ('stab-untargeted', _S, _S_TAGS, 'development/4.0',
     ['development/4.0', 'development/4.1'], ['4.0.3', '4.1.0']),
    ('stab-older-line', _S, _S_TAGS, 'development/4.1',
     ['development/4.1'], ['4.1.0']),
    ('stab-on-last-targeted', _L, _L_TAGS, 'stabilization/4.1.0',
     ['stabilization/4.1.0', 'development/4.1'], ['4.1.0']),
    ('stab-on-last-dev-dst', _L, _L_TAGS, 'development/4.1',
     ['development/4.1'], ['4.1.1']),
    ('stab-on-last-from-first', _L, _L_TAGS, 'development/4.0',
     ['development/4.0', 'development/4.1'], ['4.0.1', '4.1.1']),
    ('two-stabs-first-stab', _T, _T_TAGS, 'stabilization/4.0.1',
     ['stabilization/4.0.1', 'development/4.0', 'development/4.1',
      'development/5.0'], ['4.0.1', '4.1.4', '5.0.0']),
    ('two-stabs-first-dev', _T, _T_TAGS, 'development/4.0',
     ['development/4.0', 'development/4.1', 'development/5.0'],
     ['4.0.2', '4.1.4', '5.0.0']),
    ('two-stabs-second-stab', _T, _T_TAGS, 'stabilization/4.1.3',
     ['stabilization/4.1.3', 'development/4.1', 'development/5.0'],
     ['4.1.3', '5.0.0']),
    ('major-only-from-first', _M, _M_TAGS, 'development/4.0',
     ['development/4.0', 'development/4.1', 'development/4'],
     ['4.0.1', '4.1.1', '4.2.0']),
    ('major-only-dst', _M, _M_TAGS, 'development/4',
     ['development/4'], ['4.2.0']),
    ('major-only-alone-tagged', ['development/5'],
     ['5.0.0', '5.1.0', '5.1.1'], 'development/5',
     ['development/5'], ['5.2.0']),
    ('major-only-alone-untagged', ['development/10'], [], 'development/10',
     ['development/10'], ['10.0.0']),
    ('mixed-majors', ['development/4.1', 'development/4', 'development/5.0',
                      'development/10'], ['4.1.0', '5.0.0', '5.0.1'],
     'development/4.1',
     ['development/4.1', 'development/4', 'development/5.0',
      'development/10'], ['4.1.1', '4.2.0', '5.0.2', '10.0.0']),
    ('major-only-released-minor-without-branch',
     ['development/5.0', 'development/5'], ['5.0.0', '5.1.0'],
     'development/5.0', ['development/5.0', 'development/5'],
     ['5.0.1', '5.2.0']),
    ('stab-then-major-only', ['development/5.0', 'stabilization/5.0.1',
                              'development/5'], ['5.0.0'],
     'stabilization/5.0.1',
     ['stabilization/5.0.1', 'development/5.0', 'development/5'],
     ['5.0.1', '5.1.0']),
    ('stab-untargeted-then-major-only',
     ['development/5.0', 'stabilization/5.0.1', 'development/5'], ['5.0.0'],
     'development/5.0', ['development/5.0', 'development/5'],
     ['5.0.2', '5.1.0']),
    ('v-tags-major-10', ['development/10.0', 'development/10.1'],
     ['v10.0.0', 'v10.0.1', '10.1.0-rc2'], 'development/10.0',
     ['development/10.0', 'development/10.1'], ['10.0.2', '10.1.0']),
    ('hotfix-first-revision', _H, _H_TAGS, 'hotfix/4.0.1',
     ['hotfix/4.0.1'], ['4.0.1.1']),
    ('hotfix-later-revision', _H,
     _H_TAGS + ['4.0.1.1', '4.0.1.2'], 'hotfix/4.0.1',
     ['hotfix/4.0.1'], ['4.0.1.3']),
    ('hotfix-v-tags', _H, ['v4.0.0', 'v4.0.1', 'v4.0.1.1', '4.0.2'],
     'hotfix/4.0.1', ['hotfix/4.0.1'], ['4.0.1.2']),
    ('hotfix-without-its-dev', ['hotfix/4.0.0', 'development/5.0'],
     ['4.0.0'], 'hotfix/4.0.0', ['hotfix/4.0.0'], ['4.0.0.1']),
    ('hotfix-beside-dev-dst', ['development/4.0', 'hotfix/4.0.1',
                               'development/4.1'],
     _H_TAGS + ['4.0.1.1'], 'development/4.0',
     ['development/4.0', 'development/4.1'], ['4.0.3', '4.1.0']),
    ('two-hotfixes', ['hotfix/4.0.1', 'hotfix/4.0.2', 'development/4.0'],
     _H_TAGS + ['4.0.2.1', '4.0.2.2'], 'hotfix/4.0.1',
     ['hotfix/4.0.1'], ['4.0.1.1']),
    ('hotfix-with-stab-on-line', ['development/4.0', 'stabilization/4.0.3',
                                  'hotfix/4.0.1', 'development/5'],
     _H_TAGS, 'hotfix/4.0.1', ['hotfix/4.0.1'], ['4.0.1.1']),
    ('hotfix-untagged', ['development/4.0', 'hotfix/4.0.0'], [],
     'hotfix/4.0.0', ['hotfix/4.0.0'], None),
]
CASE_BY_ID = {c[0]: c for c in CASES}


def self_check():
    """hand-written lists == the independent function; returns problems."""
    bad = []
    for cid, branches, tags, dst, targets, versions in CASES:
        t, v = c09_versions(branches, tags, dst)
        if t != targets or v != versions:
            bad.append('%s: hand %r/%r, function %r/%r'
                       % (cid, targets, versions, t, v))
    return bad


def only_latest_dev(case):
    """the pull request targets nothing but the most recent development
    branch (the one cell where the user documentation allows a ticketless
    pull request)."""
    cid, branches, tags, dst, targets, versions = case
    return len(targets) == 1 and targets[0].startswith('development/')


# ---------------------------------------------------------------------------
# fixVersions universe, built around the expected versions of the case.
# Each member is (name, kind); kinds: expected, plain (a released-looking
# x.y.z that is not expected), suffixed, hotfix_form (x.y.z.n, n >= 1),
# dot_zero (x.y.z.0).
# ---------------------------------------------------------------------------


def universe(case):
    cid, branches, tags, dst, targets, versions = case
    hotfix = dst.startswith('hotfix/')
    if hotfix:
        base = dst.split('/')[1]
        x, y, z = _ints(base)
        if versions is None:
            return [(base, 'plain'), (base + '.0', 'dot_zero'),
                    (base + '.1', 'hotfix_form'), (base + '_hf1', 'suffixed')]
        exp = versions[0]
        n = _ints(exp)[3]
        return [(exp, 'expected'),
                (base, 'plain'),
                (exp + '_rc1', 'suffixed'),
                ('%s.%d' % (base, n + 1), 'hotfix_form'),
                (base + '.0', 'dot_zero'),
                ('%d.%d.%d' % (x, y, z + 5), 'plain')]
    out = [(v, 'expected') for v in versions]
    a, b, c = _ints(versions[0])
    la, lb, lc = _ints(versions[-1])
    old = '%d.%d.%d' % (a, b, c - 1) if c > 0 else '%d.9.9' % (a - 1)
    odd = len(cid) % 2
    fillers = [(old, 'plain'),
               (versions[0] + ('-rc1' if odd else '_hf7'), 'suffixed'),
               (versions[-1] + '.1', 'hotfix_form'),
               (versions[0] + '.0', 'dot_zero'),
               ('%d.%d.%d' % (la, lb, lc + 1), 'plain'),
               (old + ('_hf7' if odd else '-rc1'), 'suffixed')]
    out += fillers[:max(4, 6 - len(versions))]
    assert len({n for n, k in out}) == len(out), out
    return out


# ---------------------------------------------------------------------------
# source branch names.  The generator knows which ticket a name carries
# because it builds the name from it: no parsing in the oracle.
# ---------------------------------------------------------------------------
PREFIXES = ('improvement', 'bugfix', 'feature', 'project', 'documentation',
            'design', 'dependabot', 'epic', 'bug')

# (label, project key as written in the configuration, issue key in Jira)
KEYED_LABELS = (
    ('PROJ-12-fix-the-thing', 'PROJ', 'PROJ-12'),
    ('proj-12-fix-the-thing', 'PROJ', 'PROJ-12'),
    ('Proj-12-Mixed.Case_text', 'PROJ', 'PROJ-12'),
    ('PROJ-12', 'PROJ', 'PROJ-12'),
    ('P2X-3-another-project', 'P2X', 'P2X-3'),
    ('p2x-3', 'P2X', 'P2X-3'),
)
OTHER_LABELS = (
    ('OTHER-7-not-ours', 'OTHER', 'OTHER-7'),
    ('other-7', 'OTHER', 'OTHER-7'),
)
UNKEYED_LABELS = ('no-ticket-here', '1234', 'fix-PROJ-12', 'PROJ_12',
                  'PROJ', 'some/PROJ-12')
CONFIGURED_KEYS = ('PROJ', 'P2X')
TYPE_MAP = {'Story': 'feature', 'Bug': 'bugfix',
            'Improvement': 'improvement', 'Epic': 'epic'}
UNCONFIGURED_TYPE = 'Sub-task'
