"""Harness-side speed-ups that do not change what the code under test does.

bert_e.lib.template_loader.render builds a new jinja2 Environment and
re-compiles the template for every message (16 ms).  The function-level checks
raise millions of template exceptions, so they share one Environment with the
same loader and the same StrictUndefined; the rendered text is identical.
"""
from jinja2 import Environment, FileSystemLoader, StrictUndefined

_env = [None]


def cached_render(template, **kwargs):
    from bert_e.lib import template_loader
    if _env[0] is None:
        _env[0] = Environment(
            loader=FileSystemLoader(str(template_loader.TEMPLATE_DIR)),
            undefined=StrictUndefined, auto_reload=False)
    return _env[0].get_template(template).render(**kwargs)


def install():
    import bert_e.exceptions as exceptions
    import bert_e.lib.template_loader as tl
    import bert_e.workflow.gitwaterflow.branches as branches
    tl.render = cached_render
    exceptions.render = cached_render
    branches.render = cached_render
