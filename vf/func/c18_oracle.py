"""C18 oracle: a hand-written classifier of the branch-name grammar.

Written from the property statement and the user documentation
(bert_e/docs/USER_DOC.md: ``development/x.y``, ``stabilization/x.y.z``,
``q/x.y``, ``w/<version>/<name_of_source_branch>``, ``feature/KEY-1234-xxx``,
sources prefixed ``hotfix/...`` or ``user/...`` are ignored; CHANGELOG:
``development/x``).  String operations only: split on '/', split on '.',
character-set membership.  No regular expression, nothing imported from bert_e.

    classify(name) -> (kind, fields)

kind is one of KINDS or None (rejected).  ``fields`` holds the attributes the
grammar gives the name.  Keys starting with '_' are meta information:

    _alt     kinds (or None) that are acceptable as well because the
             statement and the documentation are silent about the cell
    _silent  the reasons for those alternatives
    _jira_canonical   the leading ticket key looks like the documented
             ``KEY-1234`` (upper-case project starting with a letter); only
             then is the parsed ticket key asserted
"""

KINDS = ('development', 'stabilization', 'hotfix', 'release', 'feature',
         'integration', 'queue', 'queue_integration', 'user', 'legacy_hotfix')

DESTINATION_KINDS = ('development', 'stabilization', 'hotfix')

# "all feature prefixes" of the quantifier: the prefixes Bert-E's messages
# list as accepted (template incompatible_source_branch_prefix.md renders
# them; USER_DOC names feature, bugfix, improvement as typical).
FEATURE_PREFIXES = ('improvement', 'bugfix', 'feature', 'project',
                    'documentation', 'design', 'dependabot', 'epic', 'bug')

_ASCII_DIGITS = '0123456789'
_UPPER = 'ABCDEFGHIJKLMNOPQRSTUVWXYZ'
_LOWER = 'abcdefghijklmnopqrstuvwxyz'
_WORD = _UPPER + _LOWER + _ASCII_DIGITS + '_'


# --------------------------------------------------------------------------
# git ref validity (git-check-ref-format(1)), by hand
# --------------------------------------------------------------------------
def valid_git_ref(name):
    if not name or name == '@':
        return False
    if name[0] in '/-' or name[-1] in '/.':
        return False
    if '..' in name or '//' in name or '@{' in name:
        return False
    for ch in name:
        if ord(ch) < 0x20 or ord(ch) == 0x7f or ch in ' ~^:?*[\\':
            return False
    for comp in name.split('/'):
        if not comp or comp[0] == '.' or comp.endswith('.lock'):
            return False
    return True


# --------------------------------------------------------------------------
# numbers and versions
# --------------------------------------------------------------------------
def _number(s):
    """-> (value, note).  value None when s is not a number.  note is None,
    'leading_zero' or 'non_ascii_digits' (documentation silent)."""
    if not s:
        return None, None
    if all(c in _ASCII_DIGITS for c in s):
        note = 'leading_zero' if (len(s) > 1 and s[0] == '0') else None
        return int(s), note
    if all(c.isdecimal() for c in s):
        # e.g. ARABIC-INDIC digits; int() would take them
        return int(s), 'non_ascii_digits'
    return None, None


def parse_version(s, lengths):
    """-> (tuple of ints, notes) or (None, ()) when s is not a dotted version
    with a number of components in `lengths`."""
    if '/' in s or not s:
        return None, ()
    comps = s.split('.')
    if len(comps) not in lengths:
        return None, ()
    vals, notes = [], []
    for c in comps:
        v, note = _number(c)
        if v is None:
            return None, ()
        vals.append(v)
        if note and note not in notes:
            notes.append(note)
    return tuple(vals), tuple(notes)


def _version_fields(s, vals, width):
    f = {'version': s}
    names = ('major', 'minor', 'micro', 'hfrev')[:width]
    for i, n in enumerate(names):
        f[n] = vals[i] if i < len(vals) else None
    return f


# --------------------------------------------------------------------------
# feature-like names
# --------------------------------------------------------------------------
def leading_ticket(label):
    """The ticket reference that *follows the prefix* (USER_DOC: "The ticket
    id must follow the prefix, for example feature/KEY-1234-xxx").
    -> (key, project, canonical) or (None, None, False)."""
    i = 0
    while i < len(label) and label[i] in _WORD:
        i += 1
    if i == 0 or i >= len(label) or label[i] != '-':
        return None, None, False
    j = i + 1
    while j < len(label) and label[j] in _ASCII_DIGITS:
        j += 1
    if j == i + 1:
        return None, None, False
    project = label[:i]
    key = label[:j]
    canonical = (project[0] in _UPPER and
                 all(c in _UPPER + _ASCII_DIGITS + '_' for c in project))
    return key.upper(), project.upper(), canonical


def _feature(name):
    """fields of a feature-like name, or None."""
    if '/' not in name:
        return None
    prefix, label = name.split('/', 1)
    if prefix not in FEATURE_PREFIXES or not label:
        return None
    if '\n' in label or '\r' in label:
        # not a git ref; never compared (see valid_git_ref)
        return None
    key, project, canonical = leading_ticket(label)
    return {'prefix': prefix, 'label': label, 'feature_branch': name,
            'jira_issue_key': key, 'jira_project': project,
            '_jira_canonical': canonical or key is None}


# --------------------------------------------------------------------------
def _with_notes(kind, fields, notes, fallback=None):
    """Leading zeros / non-ASCII digits: the documentation does not say
    whether 01.2 is a version.  Accept the numeric reading or the fallback
    (rejection, or 'legacy_hotfix' under hotfix/)."""
    if not notes:
        return kind, fields
    fields['_silent'] = list(notes)
    if 'non_ascii_digits' in notes:
        # primary reading: not a version
        alt_fields = {'_alt': [kind], '_silent': list(notes)}
        if fallback == 'legacy_hotfix':
            alt_fields['label'] = fields.get('_rest')
        return fallback, alt_fields
    fields['_alt'] = [fallback]
    return kind, fields


def classify(name):
    if not isinstance(name, str) or '/' not in name:
        return None, {}
    head, rest = name.split('/', 1)

    if head in FEATURE_PREFIXES:
        f = _feature(name)
        if f is None:
            return None, {}
        return 'feature', f

    if head == 'development':
        vals, notes = parse_version(rest, (1, 2))
        if vals is None:
            return None, {}
        return _with_notes('development', _version_fields(rest, vals, 2),
                           notes)

    if head == 'stabilization':
        vals, notes = parse_version(rest, (3,))
        if vals is None:
            return None, {}
        return _with_notes('stabilization', _version_fields(rest, vals, 3),
                           notes)

    if head == 'hotfix':
        if not rest or '\n' in rest:
            return None, {}
        vals, notes = parse_version(rest, (3,))
        if vals is None:
            return 'legacy_hotfix', {'label': rest}
        f = _version_fields(rest, vals, 3)
        f['_rest'] = rest
        return _with_notes('hotfix', f, notes, fallback='legacy_hotfix')

    if head == 'release':
        vals, notes = parse_version(rest, (2,))
        if vals is not None:
            return _with_notes('release', _version_fields(rest, vals, 2),
                               notes)
        vals, notes = parse_version(rest, (1, 3, 4))
        if vals is not None:
            # no document gives the version shape of a release branch
            return None, {'_alt': ['release'],
                          '_silent': ['release_version_shape']}
        return None, {}

    if head == 'user':
        if not rest or '\n' in rest:
            return None, {}
        return 'user', {'label': rest}

    if head == 'w':
        return _integration(rest, 'integration', {})

    if head == 'q':
        if rest == 'w' or rest.startswith('w/'):
            parts = rest.split('/', 2)
            if len(parts) < 3:
                return None, {}
            pr, note = _number(parts[1])
            if pr is None:
                return None, {}
            kind, f = _integration(parts[2], 'queue_integration',
                                   {'pr_id': pr})
            if note:
                if kind == 'queue_integration':
                    f.setdefault('_alt', []).append(None)
                    f.setdefault('_silent', []).append(note)
                    if note == 'non_ascii_digits':
                        return None, {'_alt': ['queue_integration'],
                                      '_silent': f['_silent']}
            return kind, f
        vals, notes = parse_version(rest, (1, 2, 3, 4))
        if vals is None:
            return None, {}
        f = _version_fields(rest, vals, 4)
        if len(vals) == 4:
            f['dst_branch'] = 'hotfix/%d.%d.%d' % vals[:3]
        elif len(vals) == 3:
            f['dst_branch'] = 'stabilization/' + rest
        else:
            f['dst_branch'] = 'development/' + rest
        if notes:
            f.pop('dst_branch')     # spelling of the destination: silent
        return _with_notes('queue', f, notes)

    return None, {}


def _integration(rest, kind, fields):
    """rest = '<version>/<source branch>'."""
    if '/' not in rest:
        return None, {}
    vs, src = rest.split('/', 1)
    vals, notes = parse_version(vs, (1, 2, 3, 4))
    if vals is None:
        return None, {}
    skind, sf = classify(src)
    if skind == 'feature':
        f = dict(fields)
        f.update(_version_fields(vs, vals, 4))
        f.update(sf)
        return _with_notes(kind, f, notes)
    if skind in ('development', 'stabilization'):
        # Bert-E treats these as cascade producers, the documentation only
        # shows feature-like sources: reported, not asserted
        return None, {'_alt': [kind], '_silent': ['dev_or_stab_source']}
    if skind in ('user', 'legacy_hotfix', 'hotfix', 'release'):
        # "Bert-E will ignore the pull request if the source branch is
        # prefixed hotfix/ or user/": no such w/ name is ever derived
        return None, {'_alt': [kind], '_silent': ['ignored_source_kind']}
    return None, {}
