"""FakeGit: the bert_e.lib.git.Repository interface over an in-memory commit
DAG, plus the builder that lays out queues the way add_to_queue does.

FakeGit subclasses the real Repository (so isinstance checks and every helper
method written in terms of ``cmd`` keep working) without running its
__init__ (no temporary directory, no clone) and replaces only ``cmd``: the
%-formatting with shell quoting of the arguments is the same as the original,
but the resulting command line is *interpreted* instead of being handed to a
shell.  Only the command lines that BranchCascade / QueueCollection /
merge_queues issue are understood; anything else raises UnknownGitCommand
(which is not a CommandError, so the code under test cannot swallow it as an
ordinary git failure) and is remembered in ``self.unknown`` so that the check
can turn the run INCONCLUSIVE.
"""
import copy
import fnmatch
import shlex

from bert_e.lib import git as real_git
from bert_e.lib.simplecmd import CommandError


class UnknownGitCommand(Exception):
    pass


_ARGV = {}      # command line -> argv (shlex.split is the harness's hot spot)


_ATOMIC = frozenset((str, int, bool, float, type(None)))


def _branch_deepcopy(self, memo):
    """Same result as copy.deepcopy's default treatment of an instance (new
    object through cls.__new__, registered in the memo, every attribute
    deep-copied) minus the generic dispatch for str/int/None attributes.
    QueueCollection._process deep-copies every branch object once per merge
    path: 85% of a cell's time is spent there."""
    cls = self.__class__
    new = cls.__new__(cls)
    memo[id(self)] = new
    d = new.__dict__
    for k, v in self.__dict__.items():
        t = type(v)
        if t in _ATOMIC or t is FakeGit:     # FakeGit.__deepcopy__ is self
            d[k] = v
        elif t.__dict__.get('__deepcopy__') is None and \
                isinstance(v, real_git.Branch):
            y = memo.get(id(v))
            d[k] = _branch_deepcopy(v, memo) if y is None else y
        else:
            d[k] = copy.deepcopy(v, memo)
    return new


def fast_deepcopy(on):
    """Harness-side speed-up, switched off on the cells that go through the
    whole path so that both ways of copying are compared with the oracle."""
    if on:
        real_git.Branch.__deepcopy__ = _branch_deepcopy
    elif '__deepcopy__' in real_git.Branch.__dict__:
        del real_git.Branch.__deepcopy__


class FakeGit(real_git.Repository):
    def __init__(self):             # deliberately not calling the original
        self._url = 'fake://in-memory'
        self._mask_pwd = ''
        self.tmp_directory = None
        self.cmd_directory = None
        self.parents = {}           # sha -> tuple of parent shas
        self.remote = {}            # branch name -> sha   (origin/<name>)
        self.local = {}             # branch name -> sha
        self.tags = []
        self.head = None            # name of the checked-out local branch
        self.unknown = []
        self.ncmd = 0
        self._anc = {}
        self._n = 0

    # QueueCollection deep-copies its branch objects (and through them the
    # repository) for every merge path; a real Repository is a handful of
    # strings, this one is the whole graph: share it.
    def __deepcopy__(self, memo):
        return self

    # -- graph construction (harness side) ----------------------------------
    def commit(self, *parents):
        self._n += 1
        sha = '%040x' % (0xc05000000000 + self._n)
        for p in parents:
            assert p in self.parents, p
        self.parents[sha] = tuple(parents)
        return sha

    def set_branch(self, name, sha):
        """A branch that exists on origin and, as after Bert-E's mirror
        clone, locally."""
        assert sha in self.parents
        self.remote[name] = sha
        self.local[name] = sha

    def ancestors(self, sha):
        a = self._anc.get(sha)
        if a is None:
            a = {sha}
            for p in self.parents[sha]:
                a |= self.ancestors(p)
            self._anc[sha] = a
        return a

    def is_ancestor(self, a, b):
        return a in self.ancestors(b)

    def model_merge(self, target, *sources):
        """What `git merge` of commits does to a tip: nothing when all the
        sources are already in, a fast-forward when one source contains the
        tip and the other sources, otherwise a new merge commit."""
        todo = [s for s in sources if not self.is_ancestor(s, target)]
        if not todo:
            return target
        for s in todo:
            if self.is_ancestor(target, s) and all(
                    self.is_ancestor(o, s) for o in todo):
                return s
        return self.commit(target, *todo)

    def snapshot(self):
        return (dict(self.local), dict(self.remote), self.head)

    def restore(self, snap):
        self.local, self.remote, self.head = \
            dict(snap[0]), dict(snap[1]), snap[2]

    # -- the Repository interface ------------------------------------------
    def cmd(self, command, *args, **kwargs):
        kwargs.pop('retry', 0)
        if args:
            command = command % tuple(
                shlex.quote(arg.strip()) if isinstance(arg, str) and arg
                else arg for arg in args)
        self.ncmd += 1
        argv = _ARGV.get(command)
        if argv is None:
            try:
                argv = shlex.split(command)
            except ValueError:
                return self._unknown(command)
            if len(_ARGV) < 100000:
                _ARGV[command] = argv
        return self._interpret(command, argv)

    def _unknown(self, command):
        self.unknown.append(command)
        raise UnknownGitCommand(command)

    def _resolve(self, rev):
        if rev in self.local:
            return self.local[rev]
        if rev.startswith('origin/') and rev[7:] in self.remote:
            return self.remote[rev[7:]]
        if rev in self.parents:
            return rev
        if rev in self.remote:      # git's dwim for an unambiguous remote ref
            return self.remote[rev]
        raise CommandError('fatal: bad revision %r' % rev)

    def _interpret(self, command, argv):
        if not argv or argv[0] != 'git' or len(argv) < 2:
            return self._unknown(command)
        sub, rest = argv[1], argv[2:]
        if sub == 'branch' and len(rest) == 3 and rest[1] == '--list' \
                and rest[0] in ('-r', '-a'):
            pat = rest[2]
            lines = []
            if rest[0] == '-a':
                for name in sorted(self.local):
                    if fnmatch.fnmatchcase(name, pat):
                        lines.append(('* ' if name == self.head else '  ')
                                     + name)
                for name in sorted(self.remote):
                    if fnmatch.fnmatchcase('origin/' + name, pat):
                        lines.append('  remotes/origin/' + name)
            else:
                for name in sorted(self.remote):
                    if fnmatch.fnmatchcase('origin/' + name, pat):
                        lines.append('  origin/' + name)
            return ''.join(line + '\n' for line in lines)
        if sub == 'branch' and len(rest) == 2 and rest[0] == '-D':
            if rest[1] not in self.local:
                raise CommandError('error: branch %r not found' % rest[1])
            if rest[1] == self.head:
                raise CommandError('error: cannot delete checked out branch')
            del self.local[rest[1]]
            return 'Deleted branch %s\n' % rest[1]
        if sub == 'tag' and not rest:
            return ''.join(t + '\n' for t in self.tags)
        if sub == 'checkout' and len(rest) == 1:
            name = rest[0]
            if name in self.local:
                self.head = name
            elif name in self.remote:
                self.local[name] = self.remote[name]
                self.head = name
            else:
                raise CommandError('error: pathspec %r did not match' % name)
            return "Switched to branch '%s'\n" % name
        if sub == 'rev-parse' and len(rest) == 1:
            return self._resolve(rest[0]) + '\n'
        if sub == 'merge-base' and len(rest) == 3 \
                and rest[0] == '--is-ancestor':
            a, b = self._resolve(rest[1]), self._resolve(rest[2])
            if not self.is_ancestor(a, b):
                raise CommandError('exit status 1')
            return ''
        if sub == 'merge' and self.head is not None:
            # `git merge [--no-edit] [--ff-only] <commit>...`
            flags = [r for r in rest if r.startswith('-')]
            names = [r for r in rest if not r.startswith('-')]
            if names and set(flags) <= {'--no-edit', '--ff-only', '--ff'}:
                tip = self.local[self.head]
                srcs = [self._resolve(r) for r in names]
                new = self.model_merge(tip, *srcs)
                if '--ff-only' in flags and new != tip and new not in srcs:
                    raise CommandError('fatal: Not possible to fast-forward, '
                                       'aborting.')
                self.local[self.head] = new
                return 'merged\n'
        return self._unknown(command)


class StatusHost:
    """The git host seen by QueueCollection: build statuses from a table,
    NOTSTARTED for a commit nobody reported on (what a host answers)."""
    def __init__(self):
        self.statuses = {}
        self.lookups = 0
        self.unknown_commits = 0
        self.keys = set()

    def get_build_status(self, revision, key):
        self.lookups += 1
        self.keys.add(key)
        try:
            return self.statuses[revision]
        except KeyError:
            self.unknown_commits += 1
            return 'NOTSTARTED'


# ---------------------------------------------------------------------------
# Layouts and queues
# ---------------------------------------------------------------------------

HOTFIX_QUEUE_SUFFIX = 1      # tag x.y.z.0 exists -> next hotfix is x.y.z.1


def layout_branches(layout):
    """layout = (ndev, stab_mask, hotfix) with hotfix in (0, 1, 2):
    development/1.0 .. development/<ndev>.0; bit i of stab_mask gives
    development/<i+1>.0 a stabilization/<i+1>.0.<m>; hotfix 1 = hotfix/0.9.0
    (older than every development branch), 2 = hotfix/1.0.0 (same minor as
    the oldest development branch, whose stabilization branch is then
    1.0.1).  Returns (ordered list of (kind, branch name, version string
    used in queue names)), tags."""
    ndev, stab_mask, hotfix = layout
    out, tags = [], []
    # hotfix 3 = both maintenance lines at once (two hotfix queues)
    if hotfix in (1, 3):
        out.append(('hotfix', 'hotfix/0.9.0', '0.9.0.%d' % HOTFIX_QUEUE_SUFFIX))
        tags.append('0.9.0.%d' % (HOTFIX_QUEUE_SUFFIX - 1))
    if hotfix in (2, 3):
        out.append(('hotfix', 'hotfix/1.0.0', '1.0.0.%d' % HOTFIX_QUEUE_SUFFIX))
        tags.append('1.0.0.%d' % (HOTFIX_QUEUE_SUFFIX - 1))
    for i in range(ndev):
        major = i + 1
        if stab_mask >> i & 1:
            micro = 1 if (hotfix in (2, 3) and i == 0) else 0
            v = '%d.0.%d' % (major, micro)
            out.append(('stabilization', 'stabilization/' + v, v))
        v = '%d.0' % major
        out.append(('development', 'development/' + v, v))
    return out, tags


def targets_of(branches, dst_index):
    """Indexes (into branches) of the branches a pull request on
    branches[dst_index] lands on: the destination, then every later
    development branch; a hotfix destination stands alone."""
    kind = branches[dst_index][0]
    if kind == 'hotfix':
        return [dst_index]
    return [dst_index] + [j for j in range(dst_index + 1, len(branches))
                          if branches[j][0] == 'development']


class World:
    """One repository with a queue in it.  Attributes for the oracle side:
    branches, queue_commit[(position, branch index)] = sha, dst_tip[branch
    index] = sha before the evaluation, qint_name[(position, branch index)]."""

    def __init__(self, layout, dests, pr_ids, stale_queues=False):
        self.layout = layout
        self.dests = tuple(dests)
        self.pr_ids = tuple(pr_ids)
        self.branches, tags = layout_branches(layout)
        g = self.git = FakeGit()
        g.tags = list(tags)
        root = g.commit()
        self.dst_tip = {}
        prev = root
        for i, (kind, name, ver) in enumerate(self.branches):
            if kind == 'hotfix':
                tip = g.commit(root)          # maintenance line of its own
            else:
                tip = prev = g.commit(prev)   # each branch contains the older
            g.set_branch(name, tip)
            self.dst_tip[i] = tip
        self.queue_commit = {}
        self.qint_name = {}
        self.queue_tip = {}
        if stale_queues:
            # q/<v> left behind (in sync with its destination) by an earlier,
            # fully merged queue
            for i, (kind, name, ver) in enumerate(self.branches):
                self.queue_tip[i] = self.dst_tip[i]
                g.set_branch('q/' + ver, self.dst_tip[i])
        for pos, (d, pr) in enumerate(zip(self.dests, self.pr_ids)):
            self._enqueue(pos, d, pr)
        self.commits = sorted(self.queue_commit)      # (pos, branch index)
        g.head = self.branches[-1][1]
        self.snap = g.snapshot()

    def _enqueue(self, pos, d, pr):
        g = self.git
        src = 'bugfix/TEST-%d' % pr
        tgts = targets_of(self.branches, d)
        # the pull request: one commit on top of its destination
        w = g.commit(self.dst_tip[d])
        g.set_branch(src, w)
        prev_qint = None
        for n, t in enumerate(tgts):
            ver = self.branches[t][2]
            if n:
                # w/<ver>/<src>: destination t + the previous integration
                w = g.model_merge(self.dst_tip[t], w)
                g.set_branch('w/%s/%s' % (ver, src), w)
            q = self.queue_tip.get(t, self.dst_tip[t])   # q/<ver> (created
            #                                    from the destination if new)
            if prev_qint is None:
                q = g.model_merge(q, w)
            else:
                q = g.model_merge(q, w, prev_qint)
            self.queue_tip[t] = q
            g.set_branch('q/' + ver, q)
            name = 'q/w/%d/%s/%s' % (pr, ver, src)
            g.set_branch(name, q)
            self.queue_commit[(pos, t)] = q
            self.qint_name[(pos, t)] = name
            prev_qint = q
